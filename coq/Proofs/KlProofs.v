(* Proofs about Model/Kl.v (KernighanLin).

   kl_sizes          every Ok result is the input with pairs of positions exchanged:
                     same length, same number of vertices in every part (all flags, all graphs)
   kl_cut_not_worse  with the repaired rewind rule the cut (as the code computes it) of the
                     result is <= the cut of the input, for every graph and every limit
   kl_no_panic       inside the usage contract the repaired code reaches no panic site
   kl_terminates     kl_fuel passes are enough (non-negative edge weights)
   kl_old_*          regression witnesses of the three defects of the pinned tree *)
From Coupe Require Import Lib.Prelude Lib.Graph Model.Kl.
Open Scope Z_scope.

(* ------------------------------------------------------------ list lemmas *)

Lemma nth_opt_nth {A} (l : list A) i d x : nth_opt l i = Some x -> nth i l d = x.
Proof.
  revert i; induction l as [|y t IH]; intros [|i]; cbn [nth_opt nth]; intros H; try discriminate.
  - now inversion H.
  - now apply IH.
Qed.

Lemma nth_opt_None {A} (l : list A) i : nth_opt l i = None -> (length l <= i)%nat.
Proof.
  revert i; induction l as [|y t IH]; intros [|i]; cbn [nth_opt length]; intros H; try discriminate; try lia.
  apply IH in H. lia.
Qed.

Lemma nth_opt_nth_lt {A} (l : list A) i d : (i < length l)%nat -> nth_opt l i = Some (nth i l d).
Proof.
  revert i; induction l as [|y t IH]; intros [|i]; cbn [nth_opt nth length]; intros H; try lia; auto.
  apply IH. lia.
Qed.

Lemma nth_set_nth {A} (l : list A) i j v d :
  nth j (set_nth l i v) d = if Nat.eqb i j && Nat.ltb i (length l) then v else nth j l d.
Proof.
  revert i j; induction l as [|y t IH]; intros i j.
  - replace (set_nth [] i v) with (@nil A) by (destruct i; reflexivity). cbn [length].
    destruct (Nat.ltb_spec i 0); [lia|]. now rewrite andb_false_r.
  - destruct i as [|i]; destruct j as [|j]; cbn [set_nth nth length Nat.eqb andb]; try reflexivity.
    rewrite IH. destruct (Nat.eqb i j); cbn [andb]; [|reflexivity].
      destruct (Nat.ltb_spec i (length t)), (Nat.ltb_spec (S i) (S (length t))); try lia; reflexivity.
Qed.

Lemma count_set_nth x l i v old : nth_opt l i = Some old ->
  (count x (set_nth l i v) + (if (old =? x)%N then 1 else 0) = count x l + (if (v =? x)%N then 1 else 0))%nat.
Proof.
  revert i; induction l as [|y t IH]; intros [|i]; cbn [nth_opt set_nth count]; intros H; try discriminate.
  - inversion H; subst. lia.
  - specialize (IH i H). lia.
Qed.

Lemma count_notin x l : ~ In x l -> count x l = O.
Proof.
  induction l as [|y t IH]; cbn [count In]; intros H; [reflexivity|].
  destruct (N.eqb_spec y x); [exfalso; auto|]. rewrite IH; auto.
Qed.

(* ------------------------------------------------------------------- swaps *)

(* total version of slice::swap (in range it is what [swap] returns) *)
Definition tswap (p : list N) (a b : nat) : list N :=
  set_nth (set_nth p a (nth b p 0%N)) b (nth a p 0%N).
Fixpoint tswaps (p : list N) (l : list (nat * nat)) : list N :=
  match l with [] => p | (a, b) :: t => tswaps (tswap p a b) t end.

Definition in_range (n : nat) (s : nat * nat) : Prop := (fst s < n)%nat /\ (snd s < n)%nat.

Lemma tswap_length p a b : length (tswap p a b) = length p.
Proof. unfold tswap. now rewrite !set_nth_length. Qed.

Lemma tswaps_length p l : length (tswaps p l) = length p.
Proof. revert p; induction l as [|[a b] t IH]; intros p; cbn [tswaps]; [reflexivity|]. now rewrite IH, tswap_length. Qed.

Lemma swap_tswap p a b q : swap p a b = Some q -> q = tswap p a b /\ in_range (length p) (a, b).
Proof.
  unfold swap, tswap, in_range. destruct (nth_opt p a) as [x|] eqn:Ea; [|discriminate].
  destruct (nth_opt p b) as [y|] eqn:Eb; [|discriminate]. intros H. inversion H; subst.
  rewrite (nth_opt_nth _ _ 0%N _ Ea), (nth_opt_nth _ _ 0%N _ Eb).
  split; [reflexivity|]. split; eapply nth_opt_Some; eauto.
Qed.

Lemma tswap_swap p a b : in_range (length p) (a, b) -> swap p a b = Some (tswap p a b).
Proof.
  intros [Ha Hb]. cbn [fst snd] in *. unfold swap, tswap.
  rewrite (nth_opt_nth_lt p a 0%N Ha), (nth_opt_nth_lt p b 0%N Hb). reflexivity.
Qed.

Lemma swaps_tswaps p l q : swaps p l = Some q -> q = tswaps p l /\ Forall (in_range (length p)) l.
Proof.
  revert p; induction l as [|[a b] t IH]; intros p; cbn [swaps tswaps]; intros H.
  - inversion H. split; [reflexivity|constructor].
  - destruct (swap p a b) as [p1|] eqn:E; [|discriminate].
    apply swap_tswap in E. destruct E as [-> R]. apply IH in H. destruct H as [-> F].
    split; [reflexivity|]. constructor; [exact R|]. now rewrite tswap_length in F.
Qed.

Lemma tswaps_swaps p l : Forall (in_range (length p)) l -> swaps p l = Some (tswaps p l).
Proof.
  revert p; induction l as [|[a b] t IH]; intros p F; cbn [swaps tswaps]; [reflexivity|].
  inversion F as [|? ? R F']; subst. rewrite (tswap_swap p a b R). apply IH. now rewrite tswap_length.
Qed.

Lemma tswaps_app p l1 l2 : tswaps p (l1 ++ l2) = tswaps (tswaps p l1) l2.
Proof. revert p; induction l1 as [|[a b] t IH]; intros p; cbn [tswaps app]; auto. Qed.

Lemma nth_tswap p a b i : in_range (length p) (a, b) ->
  nth i (tswap p a b) 0%N = if Nat.eqb i b then nth a p 0%N else if Nat.eqb i a then nth b p 0%N else nth i p 0%N.
Proof.
  intros [Ha Hb]. cbn [fst snd] in *. unfold tswap. rewrite !nth_set_nth, !set_nth_length.
  rewrite (Nat.eqb_sym b i), (Nat.eqb_sym a i).
  replace (Nat.ltb b (length p)) with true by (symmetry; apply Nat.ltb_lt; exact Hb).
  replace (Nat.ltb a (length p)) with true by (symmetry; apply Nat.ltb_lt; exact Ha).
  now rewrite !andb_true_r.
Qed.

Lemma tswap_invol p a b : in_range (length p) (a, b) -> tswap (tswap p a b) a b = p.
Proof.
  intros R. apply (nth_ext _ _ 0%N 0%N); [now rewrite !tswap_length|].
  intros i _. rewrite nth_tswap by (now rewrite tswap_length). rewrite !nth_tswap by exact R.
  rewrite !Nat.eqb_refl.
  destruct (Nat.eqb_spec i b) as [Hb|Hb]; destruct (Nat.eqb_spec i a) as [Ha|Ha];
    destruct (Nat.eqb_spec a b) as [E|E]; destruct (Nat.eqb_spec b a) as [E'|E'];
    try subst; try reflexivity; try congruence.
Qed.

Lemma tswap_comm p a b c d : in_range (length p) (a, b) -> in_range (length p) (c, d) ->
  a <> c -> a <> d -> b <> c -> b <> d ->
  tswap (tswap p c d) a b = tswap (tswap p a b) c d.
Proof.
  intros R1 R2 H1 H2 H3 H4. apply (nth_ext _ _ 0%N 0%N); [now rewrite !tswap_length|].
  intros i _. rewrite !nth_tswap by (rewrite ?tswap_length; assumption).
  destruct (Nat.eqb_spec i a), (Nat.eqb_spec i b), (Nat.eqb_spec i c), (Nat.eqb_spec i d);
    destruct (Nat.eqb_spec a c), (Nat.eqb_spec a d), (Nat.eqb_spec b c), (Nat.eqb_spec b d),
             (Nat.eqb_spec c a), (Nat.eqb_spec d a), (Nat.eqb_spec c b), (Nat.eqb_spec d b);
    try subst; try congruence; reflexivity.
Qed.

(* positions touched by a list of swaps *)
Fixpoint flat (l : list (nat * nat)) : list nat :=
  match l with [] => [] | (a, b) :: t => a :: b :: flat t end.

Lemma flat_app l1 l2 : flat (l1 ++ l2) = flat l1 ++ flat l2.
Proof. induction l1 as [|[a b] t IH]; cbn [flat app]; [reflexivity|]. now rewrite IH. Qed.

Lemma tswaps_comm p a b l : in_range (length p) (a, b) -> Forall (in_range (length p)) l ->
  ~ In a (flat l) -> ~ In b (flat l) ->
  tswap (tswaps p l) a b = tswaps (tswap p a b) l.
Proof.
  revert p; induction l as [|[c d] t IH]; intros p R F Ha Hb; cbn [tswaps]; [reflexivity|].
  inversion F as [|? ? R2 F']; subst. cbn [flat In] in Ha, Hb.
  rewrite IH; try (rewrite tswap_length; assumption); try tauto.
  f_equal. apply tswap_comm; auto; intros ->; tauto.
Qed.

(* exchanging back pairwise disjoint pairs, in any order, restores the array *)
Lemma tswaps_undo l : forall p, Forall (in_range (length p)) l -> NoDup (flat l) -> tswaps (tswaps p l) l = p.
Proof.
  induction l as [|[a b] t IH]; intros p F ND; cbn [tswaps]; [reflexivity|].
  inversion F as [|? ? R F']; subst. cbn [flat] in ND.
  inversion ND as [|? ? Na ND1]; subst. inversion ND1 as [|? ? Nb ND2]; subst.
  cbn [In] in Na.
  rewrite tswaps_comm; try (rewrite ?tswaps_length, ?tswap_length; assumption); try tauto.
  rewrite tswap_invol by exact R. apply IH; assumption.
Qed.

Lemma count_swap x p a b q : swap p a b = Some q -> count x q = count x p.
Proof.
  unfold swap. destruct (nth_opt p a) as [va|] eqn:Ea; [|discriminate].
  destruct (nth_opt p b) as [vb|] eqn:Eb; [|discriminate]. intros H; inversion H; subst; clear H.
  pose proof (count_set_nth x p a vb va Ea) as H1.
  destruct (Nat.eq_dec a b) as [->|Hne].
  - rewrite Ea in Eb. inversion Eb; subst.
    assert (E2 : nth_opt (set_nth p b vb) b = Some vb) by (apply nth_opt_set_nth_same; eapply nth_opt_Some; eauto).
    pose proof (count_set_nth x _ b vb vb E2). lia.
  - assert (E2 : nth_opt (set_nth p a vb) b = Some vb) by (rewrite nth_opt_set_nth_other; auto).
    pose proof (count_set_nth x _ b va vb E2). lia.
Qed.

Lemma swap_length p a b q : swap p a b = Some q -> length q = length p.
Proof. intros H. apply swap_tswap in H. destruct H as [-> _]. apply tswap_length. Qed.

Lemma count_swaps x l : forall p q, swaps p l = Some q -> count x q = count x p /\ length q = length p.
Proof.
  induction l as [|[a b] t IH]; intros p q; cbn [swaps]; intros H.
  - inversion H. auto.
  - destruct (swap p a b) as [p1|] eqn:E; [|discriminate].
    apply IH in H. destruct H as [H1 H2]. rewrite H1, H2. split; [eapply count_swap|eapply swap_length]; eauto.
Qed.

(* --------------------------------------------------------------- part sizes *)

Definition sizes_eq (p q : list N) : Prop := length q = length p /\ forall x, count x q = count x p.

Lemma sizes_eq_refl p : sizes_eq p p.
Proof. split; auto. Qed.
Lemma sizes_eq_trans p q r : sizes_eq p q -> sizes_eq q r -> sizes_eq p r.
Proof. intros [A B] [C D]. split; [congruence|]. intros x. now rewrite D, B. Qed.
Lemma sizes_eq_swap p a b q : swap p a b = Some q -> sizes_eq p q.
Proof. intros H. split; [eapply swap_length; eauto|]. intros x. eapply count_swap; eauto. Qed.
Lemma sizes_eq_swaps p l q : swaps p l = Some q -> sizes_eq p q.
Proof. intros H. split; [|intros x]; eapply (count_swaps 0%N l p q H) || apply (count_swaps x l p q H). Qed.

Lemma kl_flips_sizes sp old g u0 u1 wlen nb : forall k p gains locks saves cuts p' saves' cuts',
  kl_flips sp old g u0 u1 wlen nb k p gains locks saves cuts = Ok (p', saves', cuts') -> sizes_eq p p'.
Proof.
  induction k as [|k IH]; intros p gains locks saves cuts p' saves' cuts'; cbn [kl_flips]; intros H.
  - inversion H; subst. apply sizes_eq_refl.
  - destruct (add_gains g p 0 gains) as [gains1|]; [|discriminate].
    destruct (argmax_last u0 wlen 0 p gains1 locks None) as [[pos1 g1]|].
    2:{ destruct old; [discriminate|]. inversion H; subst. apply sizes_eq_refl. }
    destruct (negb old && negb (any_free u1 p locks)).
    { inversion H; subst. apply sizes_eq_refl. }
    destruct (nth_opt g pos1) as [r1|]; [|discriminate].
    destruct (nth_opt p pos1) as [p1|]; [|discriminate].
    destruct (upd_nbrs p p1 r1 gains1) as [gains2|]; [|discriminate].
    destruct (argmax_last u1 wlen 0 p gains2 locks None) as [[pos2 g2]|]; [|discriminate].
    destruct ((g1 + g2 <=? 0) && nb).
    { inversion H; subst. apply sizes_eq_refl. }
    destruct (swap p pos1 pos2) as [q|] eqn:Es; [|discriminate].
    destruct (edge_cut_chk sp g q) as [c|]; [|discriminate].
    apply IH in H. eapply sizes_eq_trans; [eapply sizes_eq_swap; eauto|exact H].
Qed.

Lemma kl_passes_sizes cfg g u0 u1 wlen : forall fuel iter cut p q,
  kl_passes cfg g u0 u1 wlen fuel iter cut p = Ok q -> sizes_eq p q.
Proof.
  induction fuel as [|f IH]; intros iter cut p q; cbn [kl_passes]; intros H; [discriminate|].
  destruct (match max_passes cfg with Some m => (m <=? iter)%N | None => false end).
  { inversion H; subst. apply sizes_eq_refl. }
  destruct (kl_flips _ _ _ _ _ _ _ _ _ _ _ _) as [[[p' saves] cuts]| | |] eqn:Ef; try discriminate.
  apply kl_flips_sizes in Ef.
  assert (U : forall l, of_swaps (swaps p' l) = Ok q -> sizes_eq p q).
  { intros l Hl. unfold of_swaps in Hl. destruct (swaps p' l) as [r|] eqn:Er; [|discriminate].
    inversion Hl; subst. eapply sizes_eq_trans; [exact Ef|eapply sizes_eq_swaps; eauto]. }
  destruct (first_min 0 cuts None) as [[pos c]|].
  - destruct (old_rewind cfg || (c <? cut)).
    + destruct (swaps p' (skipn (S pos) saves)) as [p''|] eqn:Er; [|discriminate].
      apply sizes_eq_swaps in Er.
      destruct (c >=? cut).
      * inversion H; subst. eapply sizes_eq_trans; eauto.
      * apply IH in H. eapply sizes_eq_trans; [|exact H]. eapply sizes_eq_trans; eauto.
    + eapply U; eauto.
  - destruct (old_rewind cfg); [discriminate|]. eapply U; eauto.
Qed.

Theorem kl_sizes cfg fuel g wlen p q :
  kl cfg fuel g wlen p = Ok q -> length q = length p /\ same_sizes p q.
Proof.
  unfold kl. intros H.
  assert (T : (if few_ids_return cfg then Ok p else Panic 1) = Ok q -> length q = length p /\ same_sizes p q).
  { destruct (few_ids_return cfg); [|discriminate]. intros E; inversion E; subst. split; [reflexivity|intros x; reflexivity]. }
  destruct (uniq [] p) as [|u0 [|u1 [|? ?]]]; try discriminate; auto.
  destruct (edge_cut_chk (sprs_cut cfg) g p) as [c|]; [|discriminate].
  apply kl_passes_sizes in H. exact H.
Qed.

(* ------------------------------------------- the flip loop: what it leaves *)

(* [cuts] are the cut sizes after each of the [saves], starting from [p] *)
Fixpoint trace_ok (sp : bool) (g : graph) (p : list N) (saves : list (nat * nat)) (cuts : list Z) : Prop :=
  match saves, cuts with
  | [], [] => True
  | s :: ss, c :: cs =>
      in_range (length p) s /\ c = cut_of sp g (tswap p (fst s) (snd s))
      /\ trace_ok sp g (tswap p (fst s) (snd s)) ss cs
  | _, _ => False
  end.

Lemma trace_ok_app sp g : forall ss p cs a b,
  trace_ok sp g p ss cs -> in_range (length p) (a, b) ->
  trace_ok sp g p (ss ++ [(a, b)]) (cs ++ [cut_of sp g (tswap (tswaps p ss) a b)]).
Proof.
  induction ss as [|[x y] ss IH]; intros p cs a b H R; destruct cs as [|c cs]; cbn [trace_ok] in H; try contradiction.
  - cbn [app trace_ok tswaps fst snd]. auto.
  - destruct H as [R1 [E T]]. cbn [app trace_ok tswaps fst snd] in *. split; [exact R1|]. split; [exact E|].
    apply IH; [exact T|]. now rewrite tswap_length.
Qed.

Lemma trace_ok_range sp g : forall ss p cs, trace_ok sp g p ss cs ->
  Forall (in_range (length p)) ss /\ length cs = length ss.
Proof.
  induction ss as [|s ss IH]; intros p cs H; destruct cs as [|c cs]; cbn [trace_ok] in H; try contradiction.
  - split; [constructor|reflexivity].
  - destruct H as [R [_ T]]. apply IH in T. destruct T as [F L]. rewrite tswap_length in F.
    split; [constructor; assumption|cbn [length]; lia].
Qed.

Lemma trace_ok_nth sp g : forall ss p cs i c, trace_ok sp g p ss cs -> nth_opt cs i = Some c ->
  c = cut_of sp g (tswaps p (firstn (S i) ss)) /\ (i < length ss)%nat.
Proof.
  induction ss as [|[x y] ss IH]; intros p cs i c H Hn; destruct cs as [|c0 cs]; cbn [trace_ok] in H; try contradiction.
  - destruct i; discriminate.
  - destruct H as [R [E T]]. cbn [fst snd] in *. destruct i as [|i]; cbn [nth_opt] in Hn.
    + inversion Hn; subst. cbn [firstn tswaps length]. split; [reflexivity|lia].
    + destruct (IH _ _ _ _ T Hn) as [E2 L]. cbn [length]. split; [|lia].
      rewrite E2. reflexivity.
Qed.

Lemma argmax_last_spec uid wlen : forall p gains locks idx best pos gv,
  argmax_last uid wlen idx p gains locks best = Some (pos, gv) ->
  best = Some (pos, gv) \/
  ((idx <= pos)%nat /\ nth_opt p (pos - idx) = Some uid /\ nth_opt locks (pos - idx) = Some false /\ (pos < wlen)%nat).
Proof.
  induction p as [|pi p IH]; intros gains locks idx best pos gv H; cbn [argmax_last] in H; [left; exact H|].
  destruct gains as [|gi gains]; [left; exact H|]. destruct locks as [|li locks]; [left; exact H|].
  apply IH in H. destruct H as [H|[H1 [H2 [H3 H4]]]].
  - destruct (Nat.ltb_spec idx wlen) as [Lw|Lw]; cbn [andb] in H; [|left; exact H].
    destruct (N.eqb_spec pi uid) as [Eu|Eu]; cbn [andb] in H; [|left; exact H].
    destruct li; cbn [negb] in H; [left; exact H|].
    assert (New : Some (idx, gi) = Some (pos, gv) ->
      (idx <= pos)%nat /\ nth_opt (pi :: p) (pos - idx) = Some uid /\ nth_opt (false :: locks) (pos - idx) = Some false /\ (pos < wlen)%nat).
    { intros E. inversion E; subst. rewrite Nat.sub_diag. cbn [nth_opt]. auto. }
    destruct best as [[pb gb]|].
    + destruct (gi <? gb); [left; exact H|right; apply New; exact H].
    + right; apply New; exact H.
  - right. replace (pos - idx)%nat with (S (pos - S idx)) by lia. cbn [nth_opt].
    split; [lia|]. auto.
Qed.

Lemma argmax_last_none_spec uid wlen p gains locks pos gv :
  argmax_last uid wlen 0 p gains locks None = Some (pos, gv) ->
  nth_opt p pos = Some uid /\ nth_opt locks pos = Some false /\ (pos < wlen)%nat /\ (pos < length p)%nat.
Proof.
  intros H. apply argmax_last_spec in H. destruct H as [H|[_ [H2 [H3 H4]]]]; [discriminate|].
  rewrite Nat.sub_0_r in *. repeat split; auto. eapply nth_opt_Some; eauto.
Qed.

Lemma edge_cut_chk_some sp g p c : edge_cut_chk sp g p = Some c -> c = cut_of sp g p.
Proof. unfold edge_cut_chk. destruct (_ && _); intros H; inversion H; reflexivity. Qed.

Lemma NoDup_snoc2 (l : list nat) a b : NoDup l -> ~ In a l -> ~ In b l -> a <> b -> NoDup (l ++ [a; b]).
Proof.
  induction l as [|x t IH]; intros ND Na Nb Hne; cbn [app].
  - constructor; [cbn; intuition|]. constructor; [cbn; tauto|constructor].
  - inversion ND as [|? ? Nx ND']; subst. cbn [In] in Na, Nb. constructor.
    + intros Hin. apply in_app_or in Hin. cbn [In] in Hin. intuition.
    + apply IH; auto.
Qed.

Lemma kl_flips_inv sp old g u0 u1 wlen nb p0 : u0 <> u1 ->
  forall k p gains locks saves cuts p' saves' cuts',
  p = tswaps p0 saves -> trace_ok sp g p0 saves cuts -> NoDup (flat saves) ->
  length locks = length p0 ->
  (forall i, In i (flat saves) -> nth_opt locks i = Some true) ->
  kl_flips sp old g u0 u1 wlen nb k p gains locks saves cuts = Ok (p', saves', cuts') ->
  p' = tswaps p0 saves' /\ trace_ok sp g p0 saves' cuts' /\ NoDup (flat saves').
Proof.
  intros Hu. induction k as [|k IH]; intros p gains locks saves cuts p' saves' cuts' Hp Ht Hnd Hll Hlk; cbn [kl_flips]; intros H.
  - inversion H; subst. auto.
  - destruct (add_gains g p 0 gains) as [gains1|]; [|discriminate].
    destruct (argmax_last u0 wlen 0 p gains1 locks None) as [[pos1 g1]|] eqn:A1.
    2:{ destruct old; [discriminate|]. inversion H; subst. auto. }
    destruct (negb old && negb (any_free u1 p locks)).
    { inversion H; subst. auto. }
    destruct (nth_opt g pos1) as [r1|]; [|discriminate].
    destruct (nth_opt p pos1) as [p1|]; [|discriminate].
    destruct (upd_nbrs p p1 r1 gains1) as [gains2|]; [|discriminate].
    destruct (argmax_last u1 wlen 0 p gains2 locks None) as [[pos2 g2]|] eqn:A2; [|discriminate].
    destruct ((g1 + g2 <=? 0) && nb).
    { inversion H; subst. auto. }
    destruct (swap p pos1 pos2) as [q|] eqn:Es; [|discriminate].
    destruct (edge_cut_chk sp g q) as [c|] eqn:Ec; [|discriminate].
    apply argmax_last_none_spec in A1. destruct A1 as [P1 [L1 [_ B1]]].
    apply argmax_last_none_spec in A2. destruct A2 as [P2 [L2 [_ B2]]].
    assert (Hlen : length p = length p0) by (rewrite Hp; apply tswaps_length).
    apply swap_tswap in Es. destruct Es as [Eq R]. apply edge_cut_chk_some in Ec.
    assert (Hne : pos1 <> pos2) by (intros E; subst; rewrite P1 in P2; inversion P2; congruence).
    assert (N1 : ~ In pos1 (flat saves)) by (intros Hin; apply Hlk in Hin; congruence).
    assert (N2 : ~ In pos2 (flat saves)) by (intros Hin; apply Hlk in Hin; congruence).
    eapply IH in H; try exact H; clear IH.
    + rewrite tswaps_app. cbn [tswaps]. rewrite <- Hp. exact Eq.
    + rewrite Ec, Eq, Hp. apply trace_ok_app; [exact Ht|]. rewrite <- Hlen. exact R.
    + rewrite flat_app. cbn [flat]. apply NoDup_snoc2; auto.
    + now rewrite !set_nth_length.
    + intros i Hi. rewrite flat_app in Hi. cbn [flat] in Hi. apply in_app_or in Hi.
      destruct (Nat.eq_dec i pos2) as [->|D2].
      { apply nth_opt_set_nth_same. rewrite set_nth_length. lia. }
      rewrite nth_opt_set_nth_other by auto.
      destruct (Nat.eq_dec i pos1) as [->|D1].
      { apply nth_opt_set_nth_same. lia. }
      rewrite nth_opt_set_nth_other by auto.
      destruct Hi as [Hi|Hi]; [auto|]. cbn [In] in Hi. intuition congruence.
Qed.

(* ------------------------------------------------- the pass loop: the cut *)

Lemma first_min_spec : forall l idx best pos c,
  first_min idx l best = Some (pos, c) ->
  best = Some (pos, c) \/ ((idx <= pos)%nat /\ nth_opt l (pos - idx) = Some c).
Proof.
  induction l as [|x t IH]; intros idx best pos c H; cbn [first_min] in H; [left; exact H|].
  apply IH in H. destruct H as [H|[H1 H2]].
  - assert (New : Some (idx, x) = Some (pos, c) -> (idx <= pos)%nat /\ nth_opt (x :: t) (pos - idx) = Some c).
    { intros E; inversion E; subst. rewrite Nat.sub_diag. cbn [nth_opt]. auto. }
    destruct best as [[pb b]|].
    + destruct (x <? b); [right; apply New; exact H|left; exact H].
    + right; apply New; exact H.
  - right. replace (pos - idx)%nat with (S (pos - S idx)) by lia. cbn [nth_opt]. split; [lia|exact H2].
Qed.

Lemma first_min_none : forall l idx best, first_min idx l best = None -> l = [] /\ best = None.
Proof.
  induction l as [|x t IH]; intros idx best H; cbn [first_min] in H; [auto|].
  apply IH in H. destruct H as [_ H]. destruct best as [[pb b]|]; [destruct (x <? b)|]; discriminate.
Qed.

(* what the flip loop of one pass returns, started as the pass starts it *)
Lemma kl_flips_pass sp old g u0 u1 wlen nb k p gains p' saves cuts : u0 <> u1 ->
  kl_flips sp old g u0 u1 wlen nb k p gains (repeat false (length p)) [] [] = Ok (p', saves, cuts) ->
  p' = tswaps p saves /\ trace_ok sp g p saves cuts /\ NoDup (flat saves).
Proof.
  intros Hu H. eapply (kl_flips_inv sp old g u0 u1 wlen nb p Hu) in H; eauto.
  - exact I.
  - constructor.
  - apply repeat_length.
  - intros i [].
Qed.

Lemma NoDup_app_tail (l1 l2 : list nat) : NoDup (l1 ++ l2) -> NoDup l2.
Proof. induction l1 as [|x t IH]; cbn [app]; intros H; [exact H|]. inversion H; subst. auto. Qed.

(* rewinding the tail of the saves restores the partition after the kept prefix *)
Lemma rewind_tail p saves pos : Forall (in_range (length p)) saves -> NoDup (flat saves) ->
  tswaps (tswaps p saves) (skipn pos saves) = tswaps p (firstn pos saves).
Proof.
  intros F ND. rewrite <- (firstn_skipn pos saves) at 1. rewrite tswaps_app.
  rewrite <- (firstn_skipn pos saves) in F, ND.
  apply Forall_app in F. destruct F as [_ F]. rewrite flat_app in ND. apply NoDup_app_tail in ND.
  apply tswaps_undo; [|exact ND]. now rewrite tswaps_length.
Qed.

Lemma kl_passes_cut cfg g u0 u1 wlen : u0 <> u1 -> old_rewind cfg = false ->
  forall fuel iter cut p q, cut = cut_of (sprs_cut cfg) g p ->
  kl_passes cfg g u0 u1 wlen fuel iter cut p = Ok q -> cut_of (sprs_cut cfg) g q <= cut_of (sprs_cut cfg) g p.
Proof.
  intros Hu Hr. induction fuel as [|f IH]; intros iter cut p q Hc; cbn [kl_passes]; intros H; [discriminate|].
  destruct (match max_passes cfg with Some m => (m <=? iter)%N | None => false end).
  { inversion H; subst. lia. }
  destruct (kl_flips _ _ _ _ _ _ _ _ _ _ _ _) as [[[p' saves] cuts]| | |] eqn:Ef; try discriminate.
  apply kl_flips_pass in Ef; [|exact Hu]. destruct Ef as [Ep' [Ht Hnd]].
  destruct (trace_ok_range _ _ _ _ _ Ht) as [Frange Hlen].
  assert (U : of_swaps (swaps p' saves) = Ok q -> q = p).
  { unfold of_swaps. destruct (swaps p' saves) as [r|] eqn:Er; [|discriminate]. intros E; inversion E; subst r.
    apply swaps_tswaps in Er. destruct Er as [-> _]. rewrite Ep'. apply tswaps_undo; assumption. }
  rewrite Hr in H. cbn [orb] in H.
  destruct (first_min 0 cuts None) as [[pos c]|] eqn:Em.
  - apply first_min_spec in Em. destruct Em as [Em|[_ Em]]; [discriminate|]. rewrite Nat.sub_0_r in Em.
    destruct (trace_ok_nth _ _ _ _ _ _ _ Ht Em) as [Ecut _].
    destruct (Z.ltb_spec c cut) as [Lt|Ge].
    + destruct (swaps p' (skipn (S pos) saves)) as [p''|] eqn:Er; [|discriminate].
      apply swaps_tswaps in Er. destruct Er as [Er _]. rewrite Ep', rewind_tail in Er by assumption.
      assert (Ec'' : c = cut_of (sprs_cut cfg) g p'') by (rewrite Er; exact Ecut).
      destruct (c >=? cut).
      * inversion H; subst q. lia.
      * apply (IH _ _ _ _ Ec'') in H. lia.
    + apply U in H. subst. lia.
  - apply U in H. subst. lia.
Qed.

Lemma uniq_spec : forall p seen, NoDup (uniq seen p) /\ forall x, In x (uniq seen p) -> ~ In x seen.
Proof.
  induction p as [|y t IH]; intros seen; cbn [uniq]; [split; [constructor|intros x []]|].
  destruct (existsb (N.eqb y) seen) eqn:E; [apply IH|].
  destruct (IH (y :: seen)) as [ND Hin]. split.
  - constructor; [|exact ND]. intros Hy. apply Hin in Hy. apply Hy. left; reflexivity.
  - intros x [<-|Hx].
    + intros Hs. assert (existsb (N.eqb y) seen = true); [|congruence].
      apply existsb_exists. exists y. split; [exact Hs|apply N.eqb_refl].
    + apply Hin in Hx. intros Hs. apply Hx. right; exact Hs.
Qed.

Lemma uniq_two p u0 u1 : uniq [] p = [u0; u1] -> u0 <> u1.
Proof.
  intros H. destruct (uniq_spec p []) as [ND _]. rewrite H in ND.
  inversion ND as [|? ? Hn _]; subst. intros ->. apply Hn. left; reflexivity.
Qed.

(* the cut the code computes (the topology's own edge_cut) never increases *)
Theorem kl_cut_not_worse_own cfg fuel g wlen p q : old_rewind cfg = false ->
  kl cfg fuel g wlen p = Ok q -> cut_of (sprs_cut cfg) g q <= cut_of (sprs_cut cfg) g p.
Proof.
  intros Hr. unfold kl.
  assert (T : (if few_ids_return cfg then Ok p else Panic 1) = Ok q ->
              cut_of (sprs_cut cfg) g q <= cut_of (sprs_cut cfg) g p).
  { destruct (few_ids_return cfg); [|discriminate]. intros E; inversion E; subst. lia. }
  destruct (uniq [] p) as [|u0 [|u1 [|? ?]]] eqn:Eu; try discriminate; auto.
  destruct (edge_cut_chk (sprs_cut cfg) g p) as [c|] eqn:Ec; [|discriminate].
  apply edge_cut_chk_some in Ec. apply kl_passes_cut; auto. eapply uniq_two; eauto.
Qed.

(* on a CsMatView: the cut of src/topology/sprs.rs *)
Theorem kl_cut_not_worse_sprs cfg fuel g wlen p q : old_rewind cfg = false -> sprs_cut cfg = true ->
  kl cfg fuel g wlen p = Ok q -> edge_cut_sprs g q <= edge_cut_sprs g p.
Proof. intros Hr Hs H. pose proof (kl_cut_not_worse_own cfg fuel g wlen p q Hr H) as L. rewrite Hs in L. exact L. Qed.

(* the edge cut of Topology::edge_cut: on any topology that does not override it (any
   neighbour order), and on a CSR matrix (sorted rows) *)
Theorem kl_cut_not_worse cfg fuel g wlen p q : old_rewind cfg = false ->
  (sprs_cut cfg = true -> rows_sorted g) ->
  kl cfg fuel g wlen p = Ok q -> edge_cut g q <= edge_cut g p.
Proof.
  intros Hr Hs H. pose proof (kl_cut_not_worse_own cfg fuel g wlen p q Hr H) as L.
  unfold cut_of in L. destruct (sprs_cut cfg); [|exact L].
  rewrite <- !edge_cut_sprs_eq by (apply Hs; reflexivity). exact L.
Qed.

(* ---------------------------------------------------------------- no panic *)

Lemma gain_row_some p pi : forall r acc, Forall (fun e => (fst e < length p)%nat) r ->
  exists x, gain_row p pi r acc = Some x.
Proof.
  induction r as [|[j w] t IH]; intros acc F; cbn [gain_row]; [eauto|].
  inversion F as [|? ? Hj Ft]; subst. cbn [fst] in Hj.
  destruct (nth_opt_lt p j Hj) as [pj ->]. apply IH. exact Ft.
Qed.

Lemma add_gains_some g p : wf_graph g (length p) -> forall gains idx,
  (idx + length gains <= length p)%nat ->
  exists gains', add_gains g p idx gains = Some gains' /\ length gains' = length gains.
Proof.
  intros Hw. induction gains as [|x t IH]; intros idx Hl; cbn [add_gains]; [eauto|].
  cbn [length] in Hl. destruct Hw as [Hlen Hf].
  destruct (nth_opt_lt g idx ltac:(lia)) as [r Er]. destruct (nth_opt_lt p idx ltac:(lia)) as [pi Ep].
  rewrite Er, Ep.
  assert (Fr : Forall (fun e => (fst e < length p)%nat) r).
  { rewrite Forall_forall in Hf. apply Hf. rewrite <- (nth_opt_nth g idx [] r Er). apply nth_In. lia. }
  destruct (gain_row_some p pi r x Fr) as [x' ->].
  destruct (IH (S idx) ltac:(lia)) as [t' [-> Lt]]. eexists. split; [reflexivity|]. cbn [length]. lia.
Qed.

Lemma upd_nbrs_some p p1 : forall r gains, Forall (fun e => (fst e < length p)%nat) r ->
  length gains = length p ->
  exists gains', upd_nbrs p p1 r gains = Some gains' /\ length gains' = length p.
Proof.
  induction r as [|[j w] t IH]; intros gains F Hl; cbn [upd_nbrs]; [eauto|].
  inversion F as [|? ? Hj Ft]; subst. cbn [fst] in Hj.
  destruct (nth_opt_lt p j Hj) as [pj ->]. destruct (nth_opt_lt gains j ltac:(lia)) as [gj ->].
  apply IH; [exact Ft|]. now rewrite set_nth_length.
Qed.

Lemma argmax_last_keep uid wlen : forall p gains locks idx best,
  best <> None -> argmax_last uid wlen idx p gains locks best <> None.
Proof.
  induction p as [|pi p IH]; intros gains locks idx best Hb; cbn [argmax_last]; [exact Hb|].
  destruct gains as [|gi gains]; [exact Hb|]. destruct locks as [|li locks]; [exact Hb|].
  apply IH. destruct (_ && _); [|exact Hb]. destruct best as [[pb gb]|]; [|discriminate].
  destruct (gi <? gb); discriminate.
Qed.

Lemma argmax_last_some uid wlen : forall p gains locks idx best,
  any_free uid p locks = true -> length gains = length p -> length locks = length p ->
  (idx + length p <= wlen)%nat -> argmax_last uid wlen idx p gains locks best <> None.
Proof.
  induction p as [|pi p IH]; intros gains locks idx best Ha Hg Hl Hw; cbn [any_free] in Ha; [discriminate|].
  destruct gains as [|gi gains]; [discriminate|]. destruct locks as [|li locks]; [discriminate|].
  cbn [argmax_last]. cbn [length] in *.
  replace (Nat.ltb idx wlen) with true by (symmetry; apply Nat.ltb_lt; lia). cbn [andb].
  destruct ((pi =? uid)%N && negb li) eqn:E.
  - apply argmax_last_keep. destruct best as [[pb gb]|]; [destruct (gi <? gb)|]; discriminate.
  - cbn [orb] in Ha. apply IH; auto; lia.
Qed.

Lemma edge_cut_chk_ok sp g p : wf_graph g (length p) -> edge_cut_chk sp g p = Some (cut_of sp g p).
Proof.
  intros Hw. unfold edge_cut_chk. pose proof Hw as [Hl Hf].
  replace (Nat.leb (length g) (length p)) with true by (symmetry; apply Nat.leb_le; lia).
  apply wf_graphb_ok in Hw. unfold wf_graphb in Hw. apply andb_true_iff in Hw. destruct Hw as [_ Hw].
  rewrite Hw, orb_true_r. reflexivity.
Qed.

Lemma cut_of_nonneg sp g p : nonneg_edges g -> 0 <= cut_of sp g p.
Proof. intros H. unfold cut_of. destruct sp; [apply edge_cut_sprs_nonneg|apply edge_cut_nonneg]; exact H. Qed.

Lemma kl_flips_no_panic sp g u0 u1 wlen nb n : wf_graph g n -> (n <= wlen)%nat ->
  forall k p gains locks saves cuts s, length p = n -> length gains = n -> length locks = n ->
  kl_flips sp false g u0 u1 wlen nb k p gains locks saves cuts <> Panic s.
Proof.
  intros Hw Hwl. induction k as [|k IH]; intros p gains locks saves cuts s Lp Lg Ll; cbn [kl_flips]; [discriminate|].
  assert (Hwp : wf_graph g (length p)) by (rewrite Lp; exact Hw).
  destruct (add_gains_some g p Hwp gains 0 ltac:(lia)) as [gains1 [-> L1]].
  destruct (argmax_last u0 wlen 0 p gains1 locks None) as [[pos1 g1]|] eqn:A1; [|discriminate].
  cbn [negb andb]. destruct (any_free u1 p locks) eqn:Af; cbn [negb]; [|discriminate].
  apply argmax_last_none_spec in A1. destruct A1 as [P1 [_ [_ B1]]].
  destruct Hw as [Hlen Hf].
  destruct (nth_opt_lt g pos1 ltac:(lia)) as [r1 Er]. rewrite Er, P1.
  assert (Fr : Forall (fun e => (fst e < length p)%nat) r1).
  { rewrite Lp. rewrite Forall_forall in Hf. apply Hf. rewrite <- (nth_opt_nth g pos1 [] r1 Er). apply nth_In. lia. }
  destruct (upd_nbrs_some p u0 r1 gains1 Fr ltac:(lia)) as [gains2 [-> L2]].
  destruct (argmax_last u1 wlen 0 p gains2 locks None) as [[pos2 g2]|] eqn:A2.
  2:{ exfalso. revert A2. apply argmax_last_some; auto; lia. }
  apply argmax_last_none_spec in A2. destruct A2 as [P2 [_ [_ B2]]].
  destruct ((g1 + g2 <=? 0) && nb); [discriminate|].
  rewrite (tswap_swap p pos1 pos2) by (split; cbn [fst snd]; lia).
  rewrite edge_cut_chk_ok by (rewrite tswap_length, Lp; split; assumption).
  apply IH; rewrite ?tswap_length, ?set_nth_length; lia.
Qed.

Lemma kl_flips_no_oof sp old g u0 u1 wlen nb : forall k p gains locks saves cuts,
  kl_flips sp old g u0 u1 wlen nb k p gains locks saves cuts <> OutOfFuel /\
  forall e, kl_flips sp old g u0 u1 wlen nb k p gains locks saves cuts <> Err e.
Proof.
  induction k as [|k IH]; intros p gains locks saves cuts; cbn [kl_flips]; [split; [|intros e]; discriminate|].
  destruct (add_gains g p 0 gains) as [gains1|]; [|split; [|intros e]; discriminate].
  destruct (argmax_last u0 wlen 0 p gains1 locks None) as [[pos1 g1]|]; [|destruct old; split; try intros e; discriminate].
  destruct (negb old && negb (any_free u1 p locks)); [split; [|intros e]; discriminate|].
  destruct (nth_opt g pos1) as [r1|]; [|split; [|intros e]; discriminate].
  destruct (nth_opt p pos1) as [p1|]; [|split; [|intros e]; discriminate].
  destruct (upd_nbrs p p1 r1 gains1) as [gains2|]; [|split; [|intros e]; discriminate].
  destruct (argmax_last u1 wlen 0 p gains2 locks None) as [[pos2 g2]|]; [|split; [|intros e]; discriminate].
  destruct ((g1 + g2 <=? 0) && nb); [split; [|intros e]; discriminate|].
  destruct (swap p pos1 pos2) as [q|]; [|split; [|intros e]; discriminate].
  destruct (edge_cut_chk sp g q) as [c|]; [|split; [|intros e]; discriminate].
  apply IH.
Qed.

Lemma kl_passes_no_panic cfg g u0 u1 wlen : u0 <> u1 -> old_scan cfg = false -> old_rewind cfg = false ->
  forall fuel iter cut p s, wf_graph g (length p) -> (length p <= wlen)%nat ->
  kl_passes cfg g u0 u1 wlen fuel iter cut p <> Panic s.
Proof.
  intros Hu Hs Hr. induction fuel as [|f IH]; intros iter cut p s Hw Hwl; cbn [kl_passes]; [discriminate|].
  destruct (match max_passes cfg with Some m => (m <=? iter)%N | None => false end); [discriminate|].
  rewrite Hs, Hr. cbn [orb].
  destruct (kl_flips _ _ _ _ _ _ _ _ _ _ _ _) as [[[p' saves] cuts]| | |] eqn:Ef; try discriminate.
  2:{ exfalso. revert Ef. apply (kl_flips_no_panic _ g u0 u1 wlen _ (length p)); auto; apply repeat_length. }
  apply kl_flips_pass in Ef; [|exact Hu]. destruct Ef as [Ep' [Ht Hnd]].
  destruct (trace_ok_range _ _ _ _ _ Ht) as [Frange Hlen].
  assert (Lp' : length p' = length p) by (rewrite Ep'; apply tswaps_length).
  assert (U : of_swaps (swaps p' saves) <> Panic s).
  { rewrite tswaps_swaps by (rewrite Lp'; exact Frange). discriminate. }
  destruct (first_min 0 cuts None) as [[pos c]|] eqn:Em; [|exact U].
  destruct (c <? cut); [|exact U].
  assert (F2 : Forall (in_range (length p')) (skipn (S pos) saves)).
  { rewrite Lp'. rewrite <- (firstn_skipn (S pos) saves) in Frange. apply Forall_app in Frange. tauto. }
  rewrite (tswaps_swaps p' _ F2).
  destruct (c >=? cut); [discriminate|].
  apply IH; rewrite tswaps_length, Lp'; assumption.
Qed.

(* inside the usage contract (square well-formed matrix, as many weights as vertices,
   at most two part ids in use) the repaired code reaches no panic site *)
Theorem kl_no_panic cfg fuel g wlen p s : old_scan cfg = false -> old_rewind cfg = false ->
  few_ids_return cfg = true ->
  wf_graph g (length p) -> (length p <= wlen)%nat -> (length (uniq [] p) <= 2)%nat ->
  kl cfg fuel g wlen p <> Panic s.
Proof.
  intros Hs Hr Hfew Hw Hwl Hu. unfold kl. rewrite Hfew.
  destruct (uniq [] p) as [|u0 [|u1 [|? ?]]] eqn:Eu; try discriminate; [|cbn [length] in Hu; lia].
  rewrite edge_cut_chk_ok by exact Hw.
  apply kl_passes_no_panic; auto. eapply uniq_two; eauto.
Qed.

(* -------------------------------------------------------------- termination *)

Lemma kl_passes_terminates cfg g u0 u1 wlen : u0 <> u1 -> nonneg_edges g ->
  forall fuel iter cut p, 0 <= cut -> (Z.to_nat cut < fuel)%nat ->
  kl_passes cfg g u0 u1 wlen fuel iter cut p <> OutOfFuel.
Proof.
  intros Hu Hn. induction fuel as [|f IH]; intros iter cut p Hc Hf; cbn [kl_passes]; [lia|].
  destruct (match max_passes cfg with Some m => (m <=? iter)%N | None => false end); [discriminate|].
  destruct (kl_flips _ _ _ _ _ _ _ _ _ _ _ _) as [[[p' saves] cuts]| | |] eqn:Ef; try discriminate.
  2:{ exfalso. revert Ef. apply kl_flips_no_oof. }
  apply kl_flips_pass in Ef; [|exact Hu]. destruct Ef as [Ep' [Ht Hnd]].
  assert (U : forall l, of_swaps (swaps p' l) <> OutOfFuel).
  { intros l. unfold of_swaps. destruct (swaps p' l); discriminate. }
  destruct (first_min 0 cuts None) as [[pos c]|] eqn:Em.
  2:{ destruct (old_rewind cfg); [discriminate|apply U]. }
  destruct (old_rewind cfg || (c <? cut)); [|apply U].
  destruct (swaps p' (skipn (S pos) saves)) as [p''|]; [|discriminate].
  destruct (Z.geb_spec c cut) as [Ge|Lt]; [discriminate|].
  apply first_min_spec in Em. destruct Em as [Em|[_ Em]]; [discriminate|]. rewrite Nat.sub_0_r in Em.
  destruct (trace_ok_nth _ _ _ _ _ _ _ Ht Em) as [Ecut _].
  assert (0 <= c) by (rewrite Ecut; apply cut_of_nonneg; exact Hn).
  apply IH; [assumption|]. lia.
Qed.

(* every pass that goes on lowers the (non-negative, integer) cut: kl_fuel passes suffice *)
Theorem kl_terminates cfg fuel g wlen p : nonneg_edges g -> (kl_fuel (sprs_cut cfg) g p <= fuel)%nat ->
  kl cfg fuel g wlen p <> OutOfFuel.
Proof.
  intros Hn Hf. unfold kl.
  destruct (uniq [] p) as [|u0 [|u1 [|? ?]]] eqn:Eu; try discriminate; try (destruct (few_ids_return cfg); discriminate).
  unfold kl_fuel in Hf.
  destruct (edge_cut_chk (sprs_cut cfg) g p) as [c|] eqn:Ec; [|discriminate].
  apply edge_cut_chk_some in Ec.
  apply kl_passes_terminates; auto.
  - eapply uniq_two; eauto.
  - rewrite Ec. apply cut_of_nonneg. exact Hn.
  - lia.
Qed.

(* ------------------------------------------------------------------ checker *)

Lemma uniq_complete : forall l seen x, In x l -> ~ In x seen -> In x (uniq seen l).
Proof.
  induction l as [|y t IH]; intros seen x Hin Hns; [destruct Hin|]. cbn [uniq].
  destruct (existsb (N.eqb y) seen) eqn:E.
  - destruct Hin as [->|Hin]; [|apply IH; assumption].
    exfalso. apply existsb_exists in E. destruct E as [z [Hz Ez]]. apply N.eqb_eq in Ez. subst z. auto.
  - destruct (N.eq_dec y x) as [->|Hne]; [left; reflexivity|]. right.
    destruct Hin as [E'|Hin]; [congruence|]. apply IH; [exact Hin|]. intros [E'|Hs]; [congruence|auto].
Qed.

Lemma same_sizesb_ok p p' : same_sizesb p p' = true <-> same_sizes p p'.
Proof.
  unfold same_sizesb, same_sizes. rewrite forallb_forall. split.
  - intros H x. destruct (in_dec N.eq_dec x (p ++ p')) as [Hin|Hnin].
    + apply Nat.eqb_eq. apply H. apply uniq_complete; [exact Hin|intros []].
    + rewrite !count_notin; auto; intros Hx; apply Hnin; apply in_or_app; auto.
  - intros H x _. apply Nat.eqb_eq. auto.
Qed.

Theorem check_C15_ok g p p' :
  check_C15 g p p' = true <-> (length p' = length p /\ same_sizes p p' /\ edge_cut g p' <= edge_cut g p).
Proof.
  unfold check_C15. rewrite !andb_true_iff, Nat.eqb_eq, same_sizesb_ok, Z.leb_le. tauto.
Qed.

(* ------------------------------------------------------ total correctness *)

Lemma kl_passes_no_err cfg g u0 u1 wlen : forall fuel iter cut p e,
  kl_passes cfg g u0 u1 wlen fuel iter cut p <> Err e.
Proof.
  induction fuel as [|f IH]; intros iter cut p e; cbn [kl_passes]; [discriminate|].
  destruct (match max_passes cfg with Some m => (m <=? iter)%N | None => false end); [discriminate|].
  destruct (kl_flips _ _ _ _ _ _ _ _ _ _ _ _) as [[[p' saves] cuts]| | |] eqn:Ef; try discriminate.
  2:{ exfalso. revert Ef. apply kl_flips_no_oof. }
  assert (U : forall l, of_swaps (swaps p' l) <> Err e).
  { intros l. unfold of_swaps. destruct (swaps p' l); discriminate. }
  destruct (first_min 0 cuts None) as [[pos c]|].
  2:{ destruct (old_rewind cfg); [discriminate|apply U]. }
  destruct (old_rewind cfg || (c <? cut)); [|apply U].
  destruct (swaps p' (skipn (S pos) saves)) as [p''|]; [|discriminate].
  destruct (c >=? cut); [discriminate|apply IH].
Qed.

(* C15 in one statement: inside the contract the repaired code returns, and what it
   returns has the input's part sizes and a cut that is not larger *)
Theorem kl_total cfg g wlen p : old_scan cfg = false -> old_rewind cfg = false ->
  few_ids_return cfg = true ->
  wf_graph g (length p) -> (sprs_cut cfg = true -> rows_sorted g) -> nonneg_edges g ->
  (length p <= wlen)%nat -> (length (uniq [] p) <= 2)%nat ->
  exists q, kl cfg (kl_fuel (sprs_cut cfg) g p) g wlen p = Ok q /\
            length q = length p /\ same_sizes p q /\ edge_cut g q <= edge_cut g p.
Proof.
  intros Hs Hr Hfew Hw Hso Hn Hwl Hu.
  destruct (kl cfg (kl_fuel (sprs_cut cfg) g p) g wlen p) as [q|e|s|] eqn:E.
  - exists q. split; [reflexivity|]. destruct (kl_sizes _ _ _ _ _ _ E) as [L S].
    split; [exact L|]. split; [exact S|]. eapply kl_cut_not_worse; eauto.
  - exfalso. revert E. unfold kl.
    destruct (uniq [] p) as [|u0 [|u1 [|? ?]]]; try discriminate; try (destruct (few_ids_return cfg); discriminate).
    destruct (edge_cut_chk (sprs_cut cfg) g p); [apply kl_passes_no_err|discriminate].
  - exfalso. revert E. apply kl_no_panic; auto.
  - exfalso. revert E. apply kl_terminates; auto.
Qed.

(* --------------------------- regression witnesses: the pinned tree's defects *)

Definition path4 : graph :=
  [[(1%nat, 1)]; [(0%nat, 1); (2%nat, 1)]; [(1%nat, 1); (3%nat, 1)]; [(2%nat, 1)]].
Definition kl_cfg_of mp mf mb os orw :=
  {| max_passes := mp; max_flips := mf; max_bad := mb; old_scan := os; old_rewind := orw; few_ids_return := true;
     sprs_cut := true |}.

(* before 625d2b1: the rewind kept the first swap even when it worsened the cut
   (path 0-1-2-3, parts 0011, one flip allowed, max_bad_move_in_a_row = 1: cut 1 -> 2) *)
Lemma kl_old_rewind_refuted :
  exists q, kl (kl_cfg_of None (Some 1%N) 1%N false true) 10 path4 4 [0;0;1;1]%N = Ok q
            /\ edge_cut path4 [0;0;1;1]%N = 1 /\ edge_cut path4 q = 2.
Proof. eexists. split; [vm_compute; reflexivity|]. split; vm_compute; reflexivity. Qed.
Lemma kl_new_rewind_witness :
  kl (kl_cfg_of None (Some 1%N) 1%N false false) 10 path4 4 [0;0;1;1]%N = Ok [0;0;1;1]%N.
Proof. vm_compute. reflexivity. Qed.

(* before 625d2b1: a refused first swap left `cut_saves` empty and `min_by(..).unwrap()` panicked *)
Lemma kl_old_empty_saves_panics :
  kl (kl_cfg_of None None 0%N false true) 10 path4 4 [0;0;1;1]%N = Panic 4.
Proof. vm_compute. reflexivity. Qed.

(* before 0b6d4a7: on an unbalanced input one side runs out of free vertices *)
Lemma kl_old_scan_panics :
  kl (kl_cfg_of None None 3%N true true) 10 path4 4 [0;1;1;1]%N = Panic 5
  /\ kl (kl_cfg_of None None 3%N true true) 10 path4 4 [0;0;0;1]%N = Panic 3.
Proof. split; vm_compute; reflexivity. Qed.

(* before 3ea376d: a one-part (or empty) input hit the `unimplemented!()` of the k-way case *)
Lemma kl_old_one_part_panics :
  kl {| max_passes := None; max_flips := None; max_bad := 1%N; old_scan := false; old_rewind := false;
        few_ids_return := false; sprs_cut := true |} 10 path4 4 [0;0;0;0]%N = Panic 1
  /\ kl (kl_cfg_of None None 1%N false false) 10 path4 4 [0;0;0;0]%N = Ok [0;0;0;0]%N
  /\ kl (kl_cfg_of None None 1%N false false) 10 [] 0 [] = Ok [].
Proof. repeat split; vm_compute; reflexivity. Qed.

(* on a topology that does not override edge_cut (Grid, &T, adjacency lists in any neighbour
   order): no sortedness premise *)
Theorem kl_cut_not_worse_generic cfg fuel g wlen p q : old_rewind cfg = false -> sprs_cut cfg = false ->
  kl cfg fuel g wlen p = Ok q -> edge_cut g q <= edge_cut g p.
Proof. intros Hr Hs. apply kl_cut_not_worse; [exact Hr|]. rewrite Hs. discriminate. Qed.

(* the two cut functions differ on unsorted rows (2x2 grid in coupe::Grid's neighbour order
   x-1, x+1, y-1, y+1; parts 0|1|1|0): take_while stops at the first neighbour >= v *)
Definition grid22_unsorted : graph :=
  [[(1%nat, 1); (2%nat, 1)]; [(0%nat, 1); (3%nat, 1)]; [(3%nat, 1); (0%nat, 1)]; [(2%nat, 1); (1%nat, 1)]].
Lemma cut_sprs_differs_unsorted :
  edge_cut grid22_unsorted [0;1;1;0]%N = 4 /\ edge_cut_sprs grid22_unsorted [0;1;1;0]%N = 3.
Proof. split; vm_compute; reflexivity. Qed.

(* Proofs about Model/Kl.v. *)
From Coupe Require Import Lib.Prelude Lib.Graph Model.Kl.
Open Scope Z_scope.

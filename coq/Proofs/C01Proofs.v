(* C01: the range checker is exact; Random; the per-algorithm range theorems
   are proved in the developments of the individual algorithms and collected
   in Properties/C01.v. *)
From Coupe Require Import Lib.Prelude Lib.Report Model.RandomPart Run.RunC01.

Lemma check_ids_spec parts n p :
  check_ids parts n p = true <-> (length p = n /\ Forall (fun x => (x < parts)%N) p).
Proof.
  unfold check_ids. rewrite andb_true_iff, Nat.eqb_eq, forallb_forall, Forall_forall.
  split; intros [H1 H2]; split; auto; intros x Hx; specialize (H2 x Hx); apply N.ltb_lt; exact H2.
Qed.

Lemma random_ids_lt k draws :
  (1 <= k)%N -> exists p, random_part k draws = Ok p /\ length p = length draws
                          /\ Forall (fun x => (x < k)%N) p.
Proof.
  intros Hk. unfold random_part. destruct (N.eqb_spec k 0) as [E|E]; [lia|].
  eexists. split; [reflexivity|]. split; [apply map_length|].
  apply Forall_forall. intros x Hx. apply in_map_iff in Hx as [r [<- _]].
  apply N.mod_lt. exact E.
Qed.

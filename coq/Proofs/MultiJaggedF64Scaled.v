(* The binary64 instance of Proofs/MultiJaggedMono.v for weights z * 2^e with a
   common exponent e (the families of the correspondence runs: e = 0, 3, +-10,
   -30, -70, and -1074 for subnormal weights): sums of such weights below
   2^53 * 2^e are exact, so mono_cuts and no-panic hold with no premise. *)
From Coq Require Import ZArith Reals Lia Lra Bool List Sorted Floats.SpecFloat.
From Flocq Require Import Core BinarySingleNaN.
From Coupe Require Import Lib.Prelude Lib.SFloat Model.MultiJagged Proofs.MultiJaggedProofs Proofs.MultiJaggedTotal
  Proofs.MultiJaggedMono Proofs.F64AddExact Proofs.F64RoundFacts Proofs.MultiJaggedF64Mono Proofs.MultiJaggedF64Ulps.
Import ListNotations.
Open Scope R_scope.

#[local] Existing Instance F64AddExact.Hprec.
#[local] Existing Instance F64AddExact.Hmax.
Notation B2SF := (@BinarySingleNaN.B2SF 53 1024).
Notation B2R := (@BinarySingleNaN.B2R 53 1024).
Notation is_finite := (@BinarySingleNaN.is_finite 53 1024).
Notation Bsign := (@BinarySingleNaN.Bsign 53 1024).
Notation bf := (BinarySingleNaN.binary_float 53 1024).

(* convexity of the ULP comparison against ANY non-negative finite value *)
Lemma ulps_convex_gen (t t' : spec_float) (S : bf) : is_finite S = true -> Bsign S = false ->
  Tthr t -> Tthr t' -> tleF t t' -> flt (B2SF S) t' = false ->
  f64_ulps_eq (f64_of_Z 0) t (B2SF S) = true -> f64_ulps_eq (f64_of_Z 0) t' (B2SF S) = true.
Proof.
  intros Fa Sa [X [<- [Hn Hs]]] [X' [<- [Hn' Hs']]] Hle Hlt Hu. unfold flt in Hlt.
  destruct (T_cases X' Hn' Hs') as [Fx'|EX']; [|subst X'; cbn [BinarySingleNaN.B2SF] in Hlt; rewrite (lt_fin_inf _ Fa) in Hlt; discriminate].
  apply ltb_false_le in Hlt; auto.
  destruct Hle as [X0 [X0' [E0 [E0' Hd]]]]. apply MultiJaggedF64Mono.B2SF_inj in E0. apply MultiJaggedF64Mono.B2SF_inj in E0'. subst X0 X0'.
  destruct Hd as [EX'|[Fx [_ Hxx']]]; [subst X'; discriminate|].
  assert (C1 : (codeB X <= codeB X')%Z) by (apply code_mono; auto).
  assert (C2 : (codeB X' <= codeB S)%Z) by (apply code_mono; auto).
  unfold f64_ulps_eq in *.
  destruct (fle (fabs (f64_sub (B2SF X') (B2SF S))) (f64_of_Z 0)); [reflexivity|].
  rewrite (sign_of_B2SF X' Fx' Hs'), (sign_of_B2SF S Fa Sa). cbn [Bool.eqb].
  rewrite (bits_code X' Fx' Hs'), (bits_code S Fa Sa).
  destruct (fle (fabs (f64_sub (B2SF X) (B2SF S))) (f64_of_Z 0)) eqn:E1.
  - apply test1_eq in E1; auto; [|lra].
    assert (EX : X' = S) by (apply B2R_Bsign_inj; auto; [lra|congruence]).
    rewrite EX, Z.sub_diag. reflexivity.
  - rewrite (sign_of_B2SF X Fx Hs), (sign_of_B2SF S Fa Sa) in Hu. cbn [Bool.eqb] in Hu.
    rewrite (bits_code X Fx Hs), (bits_code S Fa Sa) in Hu. apply Z.leb_le in Hu. apply Z.leb_le. lia.
Qed.

Section Scaled.
  Variable e : Z.
  Hypothesis He : (-1074 <= e <= 970)%Z.
  Definition BS : Z := (2 ^ 53 - 1)%Z.

  (* z * 2^e as the models receive it (RunC11: binary_normalize 53 1024 z e false) *)
  Definition injS (a : Z) : spec_float := SpecFloat.binary_normalize 53 1024 a e false.
  Definition NZe (a : Z) : bf := binary_normalize 53 1024 F64AddExact.Hprec F64AddExact.Hmax mode_NE a e false.

  Lemma scaled_format a : (0 <= a <= BS)%Z -> generic_format radix2 (SpecFloat.fexp 53 1024) (IZR a * bpow radix2 e).
  Proof.
    intros Ha. assert (Hlt : (Z.abs a < 2 ^ 53)%Z) by (unfold BS in Ha; lia).
    change (SpecFloat.fexp 53 1024) with (FLT_exp (-1074) 53). apply generic_format_FLT.
    exists (Float radix2 a e); [unfold F2R; cbn [Fnum Fexp]; reflexivity|exact Hlt|cbn [Fexp]; lia].
  Qed.

  Lemma injS_spec a : (0 <= a <= BS)%Z ->
    injS a = B2SF (NZe a) /\ B2R (NZe a) = IZR a * bpow radix2 e /\ is_finite (NZe a) = true /\ Bsign (NZe a) = false.
  Proof.
    intros Ha. split; [apply binary_normalize_equiv|]. unfold NZe.
    pose proof (binary_normalize_correct 53 1024 F64AddExact.Hprec F64AddExact.Hmax mode_NE a e false) as C. cbv zeta in C.
    replace (F2R (Float radix2 a e)) with (IZR a * bpow radix2 e) in C by (unfold F2R; cbn [Fnum Fexp]; reflexivity).
    rewrite (round_generic _ _ _ _ (scaled_format a Ha)) in C.
    assert (H0 : 0 <= IZR a * bpow radix2 e) by (apply Rmult_le_pos; [apply (IZR_le 0 a); lia|apply bpow_ge_0]).
    rewrite Rlt_bool_true in C.
    - destruct C as [C1 [C2 C3]]. repeat split; auto. rewrite C3.
      destruct (Rcompare_spec (IZR a * bpow radix2 e) 0); [lra|reflexivity|reflexivity].
    - rewrite Rabs_pos_eq by exact H0.
      apply Rlt_le_trans with (bpow radix2 53 * bpow radix2 e).
      + apply Rmult_lt_compat_r; [apply bpow_gt_0|]. change (bpow radix2 53) with (IZR (2 ^ 53)). apply IZR_lt. unfold BS in Ha. lia.
      + rewrite <- bpow_plus. apply bpow_le. lia.
  Qed.

  Lemma scaled_Hadd a b : (0 <= a)%Z -> (0 <= b)%Z -> (a + b <= BS)%Z ->
    a_add MultiJagged.F64 (injS a) (injS b) = injS (a + b).
  Proof.
    intros Ha Hb Hab. cbn [a_add MultiJagged.F64 F64eps].
    destruct (injS_spec a ltac:(lia)) as [Ea [Ra [Fa Sa]]]. destruct (injS_spec b ltac:(lia)) as [Eb [Rb [Fb Sb]]].
    destruct (injS_spec (a + b) ltac:(lia)) as [Ec [Rc [Fc Sc]]].
    rewrite Ea, Eb, Ec, F64AddExact.add_link. f_equal.
    pose proof (Bplus_correct 53 1024 _ _ mode_NE (NZe a) (NZe b) Fa Fb) as H.
    rewrite Ra, Rb, <- Rmult_plus_distr_r, <- plus_IZR in H.
    rewrite (round_generic _ _ _ _ (scaled_format (a + b) ltac:(lia))) in H.
    assert (H0 : 0 <= IZR (a + b) * bpow radix2 e) by (apply Rmult_le_pos; [apply (IZR_le 0); lia|apply bpow_ge_0]).
    rewrite Rlt_bool_true in H.
    - destruct H as [HR [HF HS]]. apply B2R_Bsign_inj; auto; [congruence|]. rewrite HS, Sc, Sa, Sb.
      destruct (Rcompare_spec (IZR (a + b) * bpow radix2 e) 0); [lra|reflexivity|reflexivity].
    - rewrite Rabs_pos_eq by exact H0.
      apply Rlt_le_trans with (bpow radix2 53 * bpow radix2 e).
      + apply Rmult_lt_compat_r; [apply bpow_gt_0|]. change (bpow radix2 53) with (IZR (2 ^ 53)). apply IZR_lt. unfold BS in Hab. lia.
      + rewrite <- bpow_plus. apply bpow_le. lia.
  Qed.

  Lemma scaled_le a b : (a <= b)%Z -> IZR a * bpow radix2 e <= IZR b * bpow radix2 e.
  Proof. intros H. apply Rmult_le_compat_r; [apply bpow_ge_0|apply IZR_le; exact H]. Qed.

  Lemma sc_F_up t a b : Tthr t -> (0 <= a <= BS)%Z -> (0 <= b <= BS)%Z -> (a <= b)%Z ->
    flt t (injS a) = true -> flt t (injS b) = true.
  Proof.
    intros [X [<- [Hn Hs]]] Ha Hb Hab H.
    destruct (injS_spec a Ha) as [Ea [Ra [Fa _]]]. destruct (injS_spec b Hb) as [Eb [Rb [Fb _]]].
    rewrite Ea in H. rewrite Eb. unfold flt in *.
    destruct (T_cases X Hn Hs) as [Fx| ->]; [|rewrite ltb_inf_l in H; discriminate].
    apply ltb_true_lt in H; auto. apply ltb_true_of_lt; auto. rewrite Rb. rewrite Ra in H.
    eapply Rlt_le_trans; [exact H|apply scaled_le; exact Hab].
  Qed.

  Lemma sc_tleF_tle t t' : tleF t t' -> tle MultiJagged.F64 injS BS t t'.
  Proof.
    intros [X [X' [<- [<- H]]]] a Ha. destruct (injS_spec a Ha) as [Ea [Ra [Fa _]]].
    cbn [a_lt MultiJagged.F64 F64eps]. rewrite Ea. unfold flt. split.
    - intros L. destruct H as [->|[Fx [Fx' Hle]]]; [apply lt_fin_inf; exact Fa|].
      apply ltb_true_lt in L; auto. apply ltb_true_of_lt; auto. lra.
    - intros L. destruct H as [->|[Fx [Fx' Hle]]]; [rewrite ltb_inf_l in L; discriminate|].
      apply ltb_true_lt in L; auto. apply ltb_true_of_lt; auto. lra.
  Qed.

  Lemma sc_F_eq t a : Tthr t -> (0 <= a <= BS)%Z ->
    flt (injS a) t = false -> flt t (injS a) = false -> f64_ulps_eq (f64_of_Z 0) t (injS a) = true.
  Proof.
    intros [X [<- [Hn Hs]]] Ha H1 H2. destruct (injS_spec a Ha) as [Ea [Ra [Fa Sa]]]. rewrite Ea in *. unfold flt in *.
    destruct (T_cases X Hn Hs) as [Fx| ->]; [|cbn [BinarySingleNaN.B2SF] in H1; rewrite (lt_fin_inf _ Fa) in H1; discriminate].
    apply ltb_false_le in H1; auto. apply ltb_false_le in H2; auto.
    assert (E : X = NZe a) by (apply B2R_Bsign_inj; auto; [lra|congruence]).
    rewrite E. apply ulps_refl. destruct (NZe a); cbn in *; try discriminate; reflexivity.
  Qed.

  Lemma sc_finN a : (0 <= a <= BS)%Z -> finN (injS a).
  Proof. intros Ha. destruct (injS_spec a Ha) as [E [_ [F S]]]. exists (NZe a). auto. Qed.

  Lemma sc_F_convex t t' a : Tthr t -> Tthr t' -> tleF t t' -> (0 <= a <= BS)%Z ->
    flt (injS a) t' = false -> f64_ulps_eq (f64_of_Z 0) t (injS a) = true -> f64_ulps_eq (f64_of_Z 0) t' (injS a) = true.
  Proof.
    intros Ht Ht' Hle Ha. destruct (injS_spec a Ha) as [Ea [_ [Fa Sa]]]. rewrite Ea. apply ulps_convex_gen; assumption.
  Qed.

  Lemma injS_0 : injS 0 = f64_of_Z 0.
  Proof. reflexivity. Qed.

  Lemma sc_F_thresholds W cparts parts (init : list spec_float) z : (0 <= W <= BS)%Z ->
    Forall (fun cp => (1 <= cp)%N) cparts -> parts = sumN cparts -> (parts < 2 ^ 60)%N ->
    map (fun cp => a_div MultiJagged.F64 (a_ofN MultiJagged.F64 cp) (a_ofN MultiJagged.F64 parts)) cparts = init ++ [z] ->
    Forall Tthr (thresholds MultiJagged.F64 (injS W) (injS 0) init) /\
    StronglySorted tleF (thresholds MultiJagged.F64 (injS W) (injS 0) init).
  Proof.
    intros HW Hc1 Hp Hpb Emods.
    assert (Hparts : (1 <= parts)%N).
    { destruct cparts as [|c0 t]; [destruct init; discriminate|]. inversion Hc1; subst. cbn [sumN fold_right]. lia. }
    assert (Hle : forall cp, In cp cparts -> (cp <= parts)%N).
    { subst parts. clear. induction cparts as [|x t IH]; intros cp Hin; [destruct Hin|]. cbn [sumN fold_right]. fold (sumN t).
      destruct Hin as [<-|H]; [lia|]. specialize (IH cp H). lia. }
    assert (Hfin : Forall finN init).
    { assert (Hall : Forall finN (init ++ [z])).
      { rewrite <- Emods. rewrite Forall_forall. intros q Hq. apply in_map_iff in Hq as [cp [<- Hin]].
        cbn [a_div a_ofN MultiJagged.F64 F64eps]. rewrite Forall_forall in Hc1. specialize (Hc1 cp Hin). specialize (Hle cp Hin).
        apply modifier_finN; lia. }
      apply Forall_app in Hall. tauto. }
    destruct (thresholds_T (injS W) (sc_finN W HW) init (injS 0) Hfin (finN_T _ (sc_finN 0 ltac:(unfold BS; lia)))) as [T1 [T2 _]].
    split; assumption.
  Qed.

  Theorem f64_mono_cuts_scaled (zs : list Z) blk :
    Forall (fun z => (0 <= z)%Z) zs -> (sumZ zs < 2 ^ 53)%Z ->
    mono_cuts MultiJagged.F64 (length zs) (map injS zs) blk.
  Proof.
    intros Hz Hs.
    apply (mono_cuts_of_exact_sums MultiJagged.F64 injS BS injS_0 scaled_Hadd Tthr tleF sc_tleF_tle
             (fun t Ht => f64_F_first t Ht) sc_F_up sc_F_eq sc_F_convex sc_F_thresholds zs Hz).
    unfold BS. lia.
  Qed.
End Scaled.

Lemma notneg_injS e z : (-1074 <= e <= 970)%Z -> (0 <= z <= BS)%Z -> notneg (injS e z).
Proof.
  intros He Hz. destruct (injS_spec e He z Hz) as [E [_ [F S]]]. rewrite E.
  destruct (NZe e z) as [s|s| |s m ex B]; cbn in *; try discriminate; subst; exact I.
Qed.

(* MultiJagged at binary64 never panics on weights z_i * 2^e (z_i >= 0 integers, total below 2^53) *)
Theorem mj_f64_total_scaled e D (zs : list Z) sorter blk cxlt root ord (k : N) (m : nat) p0 :
  (-1074 <= e <= 970)%Z ->
  root_ok root -> sorter_ok sorter cxlt -> (1 <= k)%N -> (k < 2 ^ 60)%N -> (1 <= m)%nat -> (1 <= D)%nat ->
  Forall (fun z => (0 <= z)%Z) zs -> (sumZ zs < 2 ^ 53)%Z -> length p0 = length zs ->
  exists p, multi_jagged MultiJagged.F64 D (length zs) (map (injS e) zs) sorter blk root ord k m p0 = Ok p.
Proof.
  intros He Hr Hs Hk Hb Hm HD Hz Hsum Hlp.
  apply (mj_f64_total_of_monotone_cuts (f64_of_Z 0) D (length zs) (map (injS e) zs) sorter blk cxlt root ord k m p0
           Hr Hs Hk Hb Hm HD (map_length _ _) Hlp).
  - rewrite Forall_forall. intros x Hx. apply in_map_iff in Hx as [z [<- Hin]]. apply notneg_injS; [exact He|].
    pose proof (In_le_sumZ zs z Hz Hin). rewrite Forall_forall in Hz. specialize (Hz z Hin). unfold BS. lia.
  - apply f64_mono_cuts_scaled; assumption.
Qed.

(* Facts about the library's binary-search loop (Lib/Sorting.v) that hold for
   EVERY array, sorted or not: it never reads out of range, never runs out of
   fuel, returns an index <= len, and its result is monotone in the key. *)
From Coupe Require Import Lib.Prelude Lib.Sorting.

Lemma div2_bounds n : 2 * Nat.div2 n <= n /\ n <= 2 * Nat.div2 n + 1.
Proof. pose proof (Nat.div2_odd n) as H. destruct (Nat.odd n); cbn [Nat.b2n] in H; lia. Qed.

Section Bs.
  Context {A : Type}.
  Variable a : list A.

  Lemma bs_loop_stop cmp fuel base size :
    size <= 1 -> bs_loop cmp a fuel base size = Ok base.
  Proof.
    intros Hs. destruct fuel; cbn [bs_loop]; destruct (Nat.leb_spec size 1); try lia; reflexivity.
  Qed.

  Lemma bs_loop_step cmp f base size x :
    1 < size -> nth_opt a (base + Nat.div2 size) = Some x ->
    bs_loop cmp a (S f) base size =
    bs_loop cmp a f (match cmp x with Gt => base | _ => base + Nat.div2 size end) (size - Nat.div2 size).
  Proof.
    intros Hs Hx. cbn [bs_loop]. destruct (Nat.leb_spec size 1); [lia|]. rewrite Hx. reflexivity.
  Qed.

  (* no out-of-range read, enough fuel, and the final base stays in the window *)
  Lemma bs_loop_ok cmp : forall fuel base size,
    1 <= size -> base + size <= length a -> size <= fuel ->
    exists b, bs_loop cmp a fuel base size = Ok b /\ base <= b /\ b + 1 <= base + size.
  Proof.
    induction fuel as [|f IH]; intros base size Hs Hb Hf; [lia|].
    destruct (Nat.leb_spec size 1) as [Hle|Hgt].
    - rewrite bs_loop_stop by lia. exists base. repeat split; lia.
    - pose proof (div2_bounds size) as [D1 D2].
      destruct (nth_opt_lt a (base + Nat.div2 size)) as [x Hx]; [lia|].
      rewrite (bs_loop_step cmp f base size x Hgt Hx).
      destruct (IH (match cmp x with Gt => base | _ => base + Nat.div2 size end)
                   (size - Nat.div2 size)) as [b [E [L U]]]; try lia.
      + destruct (cmp x); lia.
      + exists b. split; [exact E|]. destruct (cmp x); lia.
  Qed.

  (* the loop followed by the final comparison: the (Ok i | Err i) index *)
  Definition bs_res (cmp : A -> comparison) (fuel base size : nat) : res nat :=
    match bs_loop cmp a fuel base size with
    | Ok b =>
      match nth_opt a b with
      | None => Panic 20
      | Some x => Ok (match cmp x with Lt => S b | _ => b end)
      end
    | Err e => Err e
    | Panic s => Panic s
    | OutOfFuel => OutOfFuel
    end.

  Lemma bs_res_bounds cmp fuel base size :
    1 <= size -> base + size <= length a -> size <= fuel ->
    exists r, bs_res cmp fuel base size = Ok r /\ base <= r /\ r <= base + size.
  Proof.
    intros Hs Hb Hf. destruct (bs_loop_ok cmp fuel base size Hs Hb Hf) as [b [E [L U]]].
    unfold bs_res. rewrite E.
    destruct (nth_opt_lt a b) as [x Hx]; [lia|]. rewrite Hx.
    eexists. split; [reflexivity|]. destruct (cmp x); lia.
  Qed.

  (* a window that ends at [mid], whose element compares Greater, answers <= mid *)
  Lemma bs_res_upper cmp fuel base size mid x :
    1 <= size -> base + size <= length a -> size <= fuel ->
    base + size <= S mid -> nth_opt a mid = Some x -> cmp x = Gt ->
    exists r, bs_res cmp fuel base size = Ok r /\ r <= mid.
  Proof.
    intros Hs Hb Hf Hm Hx Hg. destruct (bs_loop_ok cmp fuel base size Hs Hb Hf) as [b [E [L U]]].
    unfold bs_res. rewrite E.
    destruct (nth_opt_lt a b) as [y Hy]; [lia|]. rewrite Hy.
    eexists. split; [reflexivity|].
    destruct (Nat.eq_dec b mid) as [->|Hne].
    - rewrite Hx in Hy. injection Hy as <-. rewrite Hg. lia.
    - destruct (cmp y); lia.
  Qed.

  (* [c1] searches for something not larger than [c2] does *)
  Definition cmp_le (c1 c2 : A -> comparison) : Prop :=
    forall x, (c2 x = Gt -> c1 x = Gt) /\ (c1 x = Lt -> c2 x = Lt).

  Lemma bs_res_mono c1 c2 : cmp_le c1 c2 -> forall fuel base size,
    1 <= size -> base + size <= length a -> size <= fuel ->
    exists r1 r2, bs_res c1 fuel base size = Ok r1 /\ bs_res c2 fuel base size = Ok r2 /\ r1 <= r2.
  Proof.
    intros Hc. induction fuel as [|f IH]; intros base size Hs Hb Hf; [lia|].
    destruct (Nat.leb_spec size 1) as [Hle|Hgt].
    - unfold bs_res. rewrite !bs_loop_stop by lia.
      destruct (nth_opt_lt a base) as [x Hx]; [lia|]. rewrite Hx.
      do 2 eexists. split; [reflexivity|]. split; [reflexivity|].
      destruct (Hc x) as [_ HL]. destruct (c1 x) eqn:E1.
      + destruct (c2 x); lia.
      + rewrite (HL eq_refl). lia.
      + destruct (c2 x); lia.
    - pose proof (div2_bounds size) as [D1 D2].
      destruct (nth_opt_lt a (base + Nat.div2 size)) as [x Hx]; [lia|].
      unfold bs_res.
      rewrite (bs_loop_step c1 f base size x Hgt Hx), (bs_loop_step c2 f base size x Hgt Hx).
      fold (bs_res c1 f (match c1 x with Gt => base | _ => base + Nat.div2 size end) (size - Nat.div2 size)).
      fold (bs_res c2 f (match c2 x with Gt => base | _ => base + Nat.div2 size end) (size - Nat.div2 size)).
      destruct (Hc x) as [HG _].
      destruct (c2 x) eqn:E2.
      + (* c2: Equal -> mid *)
        destruct (c1 x) eqn:E1.
        * apply IH; lia.
        * apply IH; lia.
        * destruct (bs_res_upper c1 f base (size - Nat.div2 size) (base + Nat.div2 size) x) as [r1 [R1 U1]]; try lia; auto.
          destruct (bs_res_bounds c2 f (base + Nat.div2 size) (size - Nat.div2 size)) as [r2 [R2 [L2 _]]]; try lia.
          exists r1, r2. repeat split; auto; lia.
      + destruct (c1 x) eqn:E1.
        * apply IH; lia.
        * apply IH; lia.
        * destruct (bs_res_upper c1 f base (size - Nat.div2 size) (base + Nat.div2 size) x) as [r1 [R1 U1]]; try lia; auto.
          destruct (bs_res_bounds c2 f (base + Nat.div2 size) (size - Nat.div2 size)) as [r2 [R2 [L2 _]]]; try lia.
          exists r1, r2. repeat split; auto; lia.
      + rewrite (HG eq_refl). apply IH; lia.
  Qed.
End Bs.

Lemma bsearch_by_idx_res {A} (cmp : A -> comparison) (a : list A) :
  a <> [] -> bsearch_by_idx cmp a = bs_res a cmp (length a) 0 (length a).
Proof.
  intros Hne. unfold bsearch_by_idx, bsearch_by, bs_res.
  destruct a as [|y t]; [congruence|].
  destruct (bs_loop cmp (y :: t) (length (y :: t)) 0 (length (y :: t))) as [b| | |]; try reflexivity.
  destruct (nth_opt (y :: t) b) as [x|]; [|reflexivity].
  destruct (cmp x); reflexivity.
Qed.

(* never panics / runs out of fuel, and the index is at most the length *)
Theorem bsearch_by_le_len {A} (cmp : A -> comparison) (a : list A) :
  exists i, bsearch_by_idx cmp a = Ok i /\ i <= length a.
Proof.
  destruct a as [|y t] eqn:Ea.
  - exists 0. split; [reflexivity|cbn; lia].
  - rewrite <- Ea. rewrite bsearch_by_idx_res by (subst; discriminate).
    destruct (bs_res_bounds a cmp (length a) 0 (length a)) as [r [R [_ U]]]; try lia.
    + subst; cbn; lia.
    + exists r. split; [exact R|lia].
Qed.

Theorem bsearch_by_mono {A} (c1 c2 : A -> comparison) (a : list A) :
  cmp_le c1 c2 ->
  exists i1 i2, bsearch_by_idx c1 a = Ok i1 /\ bsearch_by_idx c2 a = Ok i2 /\ i1 <= i2.
Proof.
  intros Hc. destruct a as [|y t] eqn:Ea.
  - exists 0, 0. repeat split; reflexivity || lia.
  - rewrite <- Ea. rewrite !bsearch_by_idx_res by (subst; discriminate).
    apply bs_res_mono; auto; try lia. subst; cbn; lia.
Qed.

Lemma cmp_le_compare (k1 k2 : N) : (k1 <= k2)%N ->
  cmp_le (fun x => N.compare x k1) (fun x => N.compare x k2).
Proof.
  intros Hk x. split; intros H; cbv beta in *.
  - apply N.compare_gt_iff in H. apply N.compare_gt_iff. lia.
  - assert (H' : (x < k1)%N) by exact H. apply N.compare_lt_iff. lia.
Qed.

Lemma cmp_le_partial (k1 k2 : N) : (k1 <= k2)%N ->
  cmp_le (fun x => partial_cmp_N x k1) (fun x => partial_cmp_N x k2).
Proof.
  intros Hk x. unfold partial_cmp_N.
  destruct (N.ltb_spec x k1) as [L1|L1], (N.ltb_spec x k2) as [L2|L2]; split; intros HH; try discriminate; try reflexivity; exfalso; lia.
Qed.

(* `binary_search(&k)` is monotone in k on ANY array *)
Theorem bsearch_mono (a : list N) (k1 k2 : N) : (k1 <= k2)%N ->
  exists i1 i2, bsearch_idx a k1 = Ok i1 /\ bsearch_idx a k2 = Ok i2 /\ i1 <= i2.
Proof. intros Hk. apply bsearch_by_mono, cmp_le_compare, Hk. Qed.

Theorem bsearch_le_len (a : list N) (k : N) :
  exists i, bsearch_idx a k = Ok i /\ i <= length a.
Proof. apply bsearch_by_le_len. Qed.

Theorem bsearch_pc_mono (a : list N) (k1 k2 : N) : (k1 <= k2)%N ->
  exists i1 i2, bsearch_pc_idx a k1 = Ok i1 /\ bsearch_pc_idx a k2 = Ok i2 /\ i1 <= i2.
Proof. intros Hk. apply bsearch_by_mono, cmp_le_partial, Hk. Qed.

Theorem bsearch_pc_le_len (a : list N) (k : N) :
  exists i, bsearch_pc_idx a k = Ok i /\ i <= length a.
Proof. apply bsearch_by_le_len. Qed.

(* Groundwork for the termination of `weighted_quantiles` on integer-valued
   weights (the "exact sums" regime of C06 / of i64 weights converted to f64):
   in every round ALL the sums the loop forms are the exact integers --
   the per-part weights, their prefix sums, the total -- and comparisons
   between them are the integer comparisons.  (The bracket invariant itself,
   and with it termination for part_count >= 3, is NOT proved; see docs/C09.md.)
   Through Flocq, hence with the axioms of Coq's classical reals. *)
From Coq Require Import ZArith Reals Lia Lra Floats.SpecFloat.
From Flocq Require Import Core BinarySingleNaN.
From Coupe Require Import Lib.Prelude Lib.SFloat Lib.Sorting Lib.Rayon Model.SfcPart Model.SfcSched
  Proofs.F64AddExact Proofs.SfcSchedProofs Proofs.SfcSchedExact.
Open Scope Z_scope.
#[local] Existing Instance Hprec.
#[local] Existing Instance Hmax.

(* ---- subtraction and comparison of integers of magnitude <= 2^53 ---- *)

Lemma sub_link (x y : bf) : f64_sub (B2SF x) (B2SF y) = B2SF (Bminus mode_NE x y).
Proof.
  destruct x as [sx|sx| |sx mx ex Bx], y as [sy|sy| |sy my ey By];
    try reflexivity; try (cbn; destruct (Bool.eqb _ _); reflexivity).
  cbn. etransitivity; [|apply binary_normalize_equiv]. f_equal.
  unfold Fplus_naive. destruct sx, sy; cbn [cond_Zopp negb]; lia.
Qed.

Theorem f64_sub_exact (a b : Z) :
  Z.abs a <= 2 ^ 53 -> Z.abs b <= 2 ^ 53 -> Z.abs (a - b) <= 2 ^ 53 ->
  f64_sub (f64_of_Z a) (f64_of_Z b) = f64_of_Z (a - b).
Proof.
  intros Ha Hb Hab. rewrite !of_Z_B, sub_link. f_equal.
  destruct (NZ_spec a Ha) as [RA [FA SA]]. destruct (NZ_spec b Hb) as [RB [FB SB]].
  destruct (NZ_spec (a - b) Hab) as [RC [FC SC]].
  pose proof (Bminus_correct prec emax Hprec Hmax mode_NE (NZ a) (NZ b) FA FB) as H.
  rewrite RA, RB, <- minus_IZR in H.
  rewrite (round_generic _ _ _ _ (int_format (a - b) Hab)) in H.
  rewrite Rlt_bool_true in H by (apply int_small, Hab).
  destruct H as [HR [HF HS]].
  apply B2R_Bsign_inj; auto; [congruence|].
  rewrite HS, SC, SA, SB.
  destruct (Z.ltb_spec (a - b) 0) as [L|L].
  - rewrite Rcompare_Lt; [reflexivity|]. apply (IZR_lt (a - b) 0 L).
  - destruct (Z.eq_dec (a - b) 0) as [E|Hne].
    + rewrite E, Rcompare_Eq by reflexivity.
      destruct (Z.ltb_spec a 0), (Z.ltb_spec b 0); try reflexivity; lia.
    + rewrite Rcompare_Gt; [reflexivity|]. apply (IZR_lt 0 (a - b)). lia.
Qed.

(* the f64 `<` on such integers is the integer `<` *)
Theorem flt_oz (a b : Z) : Z.abs a <= 2 ^ 53 -> Z.abs b <= 2 ^ 53 ->
  flt (f64_of_Z a) (f64_of_Z b) = (a <? b).
Proof.
  intros Ha Hb. rewrite !of_Z_B.
  destruct (NZ_spec a Ha) as [RA [FA _]]. destruct (NZ_spec b Hb) as [RB [FB _]].
  change (flt (B2SF (NZ a)) (B2SF (NZ b))) with (Bltb (NZ a) (NZ b)).
  rewrite (Bltb_correct _ _ (NZ a) (NZ b) FA FB), RA, RB.
  destruct (Z.ltb_spec a b) as [L|L].
  - apply Rlt_bool_true, IZR_lt, L.
  - apply Rlt_bool_false, IZR_le, L.
Qed.

(* ---- the sums of one round ---- *)

Fixpoint prefixZ (acc : Z) (l : list Z) : list Z :=
  match l with
  | [] => []
  | x :: t => (acc + x) :: prefixZ (acc + x) t
  end.

Lemma prefix_sums_oz : forall h acc, nonneg h -> 0 <= acc -> acc + sumZ h <= 2 ^ 53 ->
  prefix_sums (oz acc) (map oz h) = map oz (prefixZ acc h).
Proof.
  induction h as [|x t IH]; intros acc Hn Ha Hb; cbn [map prefix_sums prefixZ]; [reflexivity|].
  inversion Hn as [|? ? Hx Ht]; subst. rewrite sumZ_cons in Hb. pose proof (sumZ_nonneg t Ht).
  cbv zeta.
  replace (f64_add (oz acc) (oz x)) with (oz (acc + x)) by (unfold oz; rewrite f64_add_exact by lia; reflexivity).
  f_equal. apply IH; auto; lia.
Qed.

Lemma fold_add_oz : forall h acc, nonneg h -> 0 <= acc -> acc + sumZ h <= 2 ^ 53 ->
  fold_left f64_add (map oz h) (oz acc) = oz (acc + sumZ h).
Proof.
  induction h as [|x t IH]; intros acc Hn Ha Hb; cbn [map fold_left].
  - cbn. f_equal. lia.
  - inversion Hn as [|? ? Hx Ht]; subst. rewrite sumZ_cons in *. pose proof (sumZ_nonneg t Ht).
    replace (f64_add (oz acc) (oz x)) with (oz (acc + x)) by (unfold oz; rewrite f64_add_exact by lia; reflexivity).
    rewrite IH by (auto; lia). f_equal. lia.
Qed.

(* `Sum for f64` starts from -0.0: the first addition already gives the integer *)
Lemma negzero_add_oz x : 0 <= x -> x <= 2 ^ 53 -> f64_add fnegzero (oz x) = oz x.
Proof.
  intros Hx Hb. unfold oz. rewrite of_Z_B.
  destruct (NZ_spec x ltac:(lia)) as [_ [F S']].
  destruct (NZ x) as [s|s| |s m e Hbd]; try discriminate F.
  - cbn in S'. destruct (Z.ltb_spec x 0); [lia|]. subst s. reflexivity.
  - reflexivity.
Qed.

Lemma total_oz h : h <> [] -> nonneg h -> sumZ h <= 2 ^ 53 ->
  fold_left f64_add (map oz h) fnegzero = oz (sumZ h).
Proof.
  intros Hne Hn Hb. destruct h as [|x t]; [congruence|].
  inversion Hn as [|? ? Hx Ht]; subst. rewrite sumZ_cons in *. pose proof (sumZ_nonneg t Ht).
  cbn [map fold_left]. rewrite negzero_add_oz by lia. apply fold_add_oz; auto; lia.
Qed.

(* THE round lemma: with integer-valued non-negative weights of total <= 2^53
   the histogram, its prefix sums and the total of a round are the exact
   integers, whatever the positions (sorted or not) *)
Theorem round_sums_exact positions n pts zs :
  (1 <= n)%nat -> nonneg zs -> sumZ zs <= 2 ^ 53 ->
  match pwZ positions pts zs (repeat 0 n) with
  | Ok h =>
      part_weights_of positions pts (map oz zs) (repeat fzero n) = Ok (map oz h)
      /\ prefix_sums fzero (map oz h) = map oz (prefixZ 0 h)
      /\ fold_left f64_add (map oz h) fnegzero = oz (sumZ h)
      /\ nonneg h /\ sumZ h <= sumZ zs /\ length h = n
  | Err e => part_weights_of positions pts (map oz zs) (repeat fzero n) = Err e
  | Panic s => part_weights_of positions pts (map oz zs) (repeat fzero n) = Panic s
  | OutOfFuel => part_weights_of positions pts (map oz zs) (repeat fzero n) = OutOfFuel
  end.
Proof.
  intros H1n Hn Hs.
  assert (Hz0 : nonneg (repeat 0 n)) by (clear; induction n; constructor; auto; lia).
  assert (Hs0 : sumZ (repeat 0 n) = 0) by (clear; induction n; cbn; auto).
  pose proof (pw_shadow f64_add_exact_on_integers_holds positions pts zs (repeat 0 n) Hn Hz0 ltac:(lia)) as SH.
  rewrite map_repeat in SH. change (oz 0) with fzero in SH.
  destruct (pwZ positions pts zs (repeat 0 n)) as [h| | |] eqn:E; cbn [rmap] in SH; try exact SH.
  destruct (pwZ_props _ _ _ _ _ Hn Hz0 E) as [L [Nn S']]. rewrite repeat_length in L.
  split; [exact SH|]. split; [|split; [|repeat split; auto; lia]].
  - change fzero with (oz 0). apply prefix_sums_oz; auto; lia.
  - apply total_oz; auto; [|lia]. intros ->. cbn [length] in L. lia.
Qed.

(* Non-vacuity witnesses for the C19 theorems: concrete inputs satisfying the
   hypotheses (proved without vm_compute on propositions: normalising
   [fun x => x < 2^64] under the binder is explosive). *)
From Coupe Require Import Lib.Prelude Model.Formats Model.MeditTypes Gen.MeditGen Model.Medit
  Proofs.FormatsProofs Proofs.MeditBinProofs.
Open Scope N_scope.

Ltac solve_ranges :=
  repeat match goal with
  | |- _ /\ _ => split
  | |- Forall _ [] => constructor
  | |- Forall _ (_ :: _) => constructor
  | |- context [b_nodes (mkblock _ _ _)] => cbn [b_ty b_nodes b_refs]
  | |- context [b_refs (mkblock _ _ _)] => cbn [b_ty b_nodes b_refs]
  | |- context [b_ty (mkblock _ _ _)] => cbn [b_ty b_nodes b_refs]
  | |- u64_ok _ => reflexivity
  | |- node_ok _ => reflexivity
  | |- i64_ok _ => split; [(let Hc := fresh in intro Hc; discriminate Hc) | reflexivity]
  | |- listed_ty _ => unfold listed_ty; tauto
  | |- _ <> _ => discriminate
  | |- @eq nat _ _ => reflexivity
  | |- @eq N _ _ => reflexivity
  | |- (_ < _)%N => reflexivity
  | |- (_ <= _)%N => (let Hc := fresh in intro Hc; discriminate Hc)
  end.

(* NaN with payload, -0.0, +inf, smallest subnormal; two criteria *)
Definition example_float_rows : list (list N) :=
  [[9221120237041090561; 9223372036854775808]; [9218868437227405312; 1]].
Lemma example_float_rows_ok :
  example_float_rows <> [] /\ wf_rows u64_ok example_float_rows
  /\ rw_weights (WFloats example_float_rows) = FOk (WFloats example_float_rows).
Proof.
  split; [discriminate|]. split; [|vm_compute; reflexivity].
  unfold example_float_rows, wf_rows. solve_ranges.
Qed.

Definition example_int_rows : list (list Z) :=
  [[-9223372036854775808; 9223372036854775807; -1]%Z; [0; 1; 2]%Z].
Lemma example_int_rows_ok :
  example_int_rows <> [] /\ wf_rows i64_ok example_int_rows
  /\ rw_weights (WInts example_int_rows) = FOk (WInts example_int_rows).
Proof.
  split; [discriminate|]. split; [|vm_compute; reflexivity].
  unfold example_int_rows, wf_rows. solve_ranges.
Qed.

(* a 2-D mesh: 3 nodes, an edge block and a triangle block, negative / extreme references *)
Definition example_mesh : mesh :=
  mkmesh 2 [0; 4607182418800017408; 4607182418800017408; 0; 4611686018427387904; 13830554455654793216]
         [0; -1; 9223372036854775807]%Z
         [mkblock Edge [0; 1; 1; 2] [5; -9223372036854775808]%Z; mkblock Triangle [0; 1; 2] [7]%Z].

Lemma example_mesh_wf : wf_mesh example_mesh.
Proof.
  unfold wf_mesh, mesh_shape, mesh_ranges, example_mesh. cbn [m_dim m_coords m_nrefs m_topo].
  unfold block_shape, block_ranges. solve_ranges.
Qed.

Lemma example_mesh_listed : Forall (fun b => listed_ty (b_ty b)) (m_topo example_mesh).
Proof. unfold example_mesh. cbn [m_topo]. solve_ranges. Qed.

Lemma example_mesh_bin : rw_medit_bin example_mesh = FOk example_mesh.
Proof. vm_compute. reflexivity. Qed.

(* a mesh with a Vertex block and a Quadrangle block: what the binary round trip changes *)
Definition example_mesh_exotic : mesh :=
  mkmesh 3 [0; 0; 0; 4607182418800017408; 0; 0; 0; 4607182418800017408; 0; 0; 0; 4607182418800017408]
         [1; 2; 3; 4]%Z
         [mkblock Vertex [0; 1] [9; 9]%Z; mkblock Quadrangle [0; 1; 2; 3] [-4]%Z].
Lemma example_mesh_exotic_bin :
  wf_mesh example_mesh_exotic /\
  rw_medit_bin example_mesh_exotic
  = FOk (mkmesh 3 (m_coords example_mesh_exotic) [1; 2; 3; 4]%Z [mkblock Quadrilateral [0; 1; 2; 3] [-4]%Z]).
Proof.
  split; [|vm_compute; reflexivity].
  unfold wf_mesh, mesh_shape, mesh_ranges, example_mesh_exotic. cbn [m_dim m_coords m_nrefs m_topo].
  unfold block_shape, block_ranges. solve_ranges.
Qed.

(* Non-vacuity witnesses for the C19 theorems: concrete inputs satisfying the
   hypotheses (proved without vm_compute on propositions: normalising
   [fun x => x < 2^64] under the binder is explosive). *)
From Coupe Require Import Lib.Prelude Model.Formats Model.MeditTypes Gen.MeditGen Model.Medit
  Proofs.FormatsProofs Proofs.MeditBinProofs.
Open Scope N_scope.

Ltac solve_ranges :=
  repeat match goal with
  | |- _ /\ _ => split
  | |- Forall _ [] => constructor
  | |- Forall _ (_ :: _) => constructor
  | |- context [b_nodes (mkblock _ _ _)] => cbn [b_ty b_nodes b_refs]
  | |- context [b_refs (mkblock _ _ _)] => cbn [b_ty b_nodes b_refs]
  | |- context [b_ty (mkblock _ _ _)] => cbn [b_ty b_nodes b_refs]
  | |- u64_ok _ => reflexivity
  | |- node_ok _ => reflexivity
  | |- i64_ok _ => split; [(let Hc := fresh in intro Hc; discriminate Hc) | reflexivity]
  | |- listed_ty _ => unfold listed_ty; tauto
  | |- _ <> _ => discriminate
  | |- @eq nat _ _ => reflexivity
  | |- @eq N _ _ => reflexivity
  | |- (_ < _)%N => reflexivity
  | |- (_ <= _)%N => (let Hc := fresh in intro Hc; discriminate Hc)
  end.

(* NaN with payload, -0.0, +inf, smallest subnormal; two criteria *)
Definition example_float_rows : list (list N) :=
  [[9221120237041090561; 9223372036854775808]; [9218868437227405312; 1]].
Lemma example_float_rows_ok :
  example_float_rows <> [] /\ wf_rows u64_ok example_float_rows
  /\ rw_weights (WFloats example_float_rows) = FOk (WFloats example_float_rows).
Proof.
  split; [discriminate|]. split; [|vm_compute; reflexivity].
  unfold example_float_rows, wf_rows. solve_ranges.
Qed.

Definition example_int_rows : list (list Z) :=
  [[-9223372036854775808; 9223372036854775807; -1]%Z; [0; 1; 2]%Z].
Lemma example_int_rows_ok :
  example_int_rows <> [] /\ wf_rows i64_ok example_int_rows
  /\ rw_weights (WInts example_int_rows) = FOk (WInts example_int_rows).
Proof.
  split; [discriminate|]. split; [|vm_compute; reflexivity].
  unfold example_int_rows, wf_rows. solve_ranges.
Qed.

(* a 2-D mesh: 3 nodes, an edge block and a triangle block, negative / extreme references *)
Definition example_mesh : mesh :=
  mkmesh 2 [0; 4607182418800017408; 4607182418800017408; 0; 4611686018427387904; 13830554455654793216]
         [0; -1; 9223372036854775807]%Z
         [mkblock Edge [0; 1; 1; 2] [5; -9223372036854775808]%Z; mkblock Triangle [0; 1; 2] [7]%Z].

Lemma example_mesh_wf : wf_mesh example_mesh.
Proof.
  unfold wf_mesh, mesh_shape, mesh_ranges, example_mesh. cbn [m_dim m_coords m_nrefs m_topo].
  unfold block_shape, block_ranges. solve_ranges.
Qed.

Lemma example_mesh_listed : Forall (fun b => listed_ty (b_ty b)) (m_topo example_mesh).
Proof. unfold example_mesh. cbn [m_topo]. solve_ranges. Qed.

Lemma example_mesh_bin : rw_medit_bin example_mesh = FOk example_mesh.
Proof. vm_compute. reflexivity. Qed.

(* a mesh with a Vertex block and a Quadrangle block: what the binary round trip changes *)
Definition example_mesh_exotic : mesh :=
  mkmesh 3 [0; 0; 0; 4607182418800017408; 0; 0; 0; 4607182418800017408; 0; 0; 0; 4607182418800017408]
         [1; 2; 3; 4]%Z
         [mkblock Vertex [0; 1] [9; 9]%Z; mkblock Quadrangle [0; 1; 2; 3] [-4]%Z].
Lemma example_mesh_exotic_bin :
  wf_mesh example_mesh_exotic /\
  rw_medit_bin example_mesh_exotic
  = FOk (mkmesh 3 (m_coords example_mesh_exotic) [1; 2; 3; 4]%Z [mkblock Quadrilateral [0; 1; 2; 3] [-4]%Z]).
Proof.
  split; [|vm_compute; reflexivity].
  unfold wf_mesh, mesh_shape, mesh_ranges, example_mesh_exotic. cbn [m_dim m_coords m_nrefs m_topo].
  unfold block_shape, block_ranges. solve_ranges.
Qed.

(* ---- ASCII: an instance of the float printing / parsing hypotheses ---- *)
From Coupe Require Import Proofs.MeditAsciiProofs.

(* Display / FromStr restricted to the four coordinates of [example_mesh]: 0, 1, 2, -1 *)
Definition ex_print (x : N) : list N :=
  if x =? 0 then [48] else if x =? 4607182418800017408 then [49]
  else if x =? 4611686018427387904 then [50] else if x =? 13830554455654793216 then [45; 49] else [63].
Definition ex_parse (w : list N) : option N :=
  if bytes_eqb w [48] then Some 0 else if bytes_eqb w [49] then Some 4607182418800017408
  else if bytes_eqb w [50] then Some 4611686018427387904
  else if bytes_eqb w [45; 49] then Some 13830554455654793216 else None.

Lemma example_mesh_ascii :
  wf_mesh_ascii example_mesh /\ Forall (float_ok ex_print ex_parse) (m_coords example_mesh)
  /\ Forall (fun b => b_ty b <> Vertex) (m_topo example_mesh)
  /\ rw_medit_ascii ex_print ex_parse example_mesh = FOk example_mesh.
Proof.
  split; [|split; [|split]].
  - unfold wf_mesh_ascii, mesh_shape, mesh_ranges_ascii, example_mesh. cbn [m_dim m_coords m_nrefs m_topo].
    unfold block_shape, block_ranges_ascii.
    repeat match goal with
    | |- _ /\ _ => split
    | |- Forall _ [] => constructor
    | |- Forall _ (_ :: _) => constructor
    | |- context [b_nodes (mkblock _ _ _)] => cbn [b_ty b_nodes b_refs]
    | |- context [b_refs (mkblock _ _ _)] => cbn [b_ty b_nodes b_refs]
    | |- context [b_ty (mkblock _ _ _)] => cbn [b_ty b_nodes b_refs]
    | |- node_ok_ascii _ => reflexivity
    | |- i64_ok _ => split; [(let Hc := fresh in intro Hc; discriminate Hc) | reflexivity]
    | |- _ <> _ => discriminate
    | |- @eq nat _ _ => reflexivity
    | |- @eq N _ _ => reflexivity
    | |- (_ < _)%N => reflexivity
    | |- (_ <= _)%N => (let Hc := fresh in intro Hc; discriminate Hc)
    end.
  - unfold example_mesh. cbn [m_coords]. repeat constructor.
  - unfold example_mesh. cbn [m_topo b_ty]. repeat constructor; discriminate.
  - vm_compute. reflexivity.
Qed.

(* the text display_medit_ascii produces for it *)
Lemma example_mesh_ascii_text :
  serialize_ascii ex_print example_mesh =
  FOk [77;101;115;104;86;101;114;115;105;111;110;70;111;114;109;97;116;116;101;100;32;50;10;
       68;105;109;101;110;115;105;111;110;32;50;10;10;86;101;114;116;105;99;101;115;10;9;51;10;
       32;48;32;49;32;48;10;32;49;32;48;32;45;49;10;32;50;32;45;49;32;57;50;50;51;51;55;50;48;51;54;56;53;52;55;55;53;56;48;55;10;
       10;69;100;103;101;115;10;9;50;10;32;49;32;50;32;53;10;32;50;32;51;32;45;57;50;50;51;51;55;50;48;51;54;56;53;52;55;55;53;56;48;56;10;
       10;84;114;105;97;110;103;108;101;115;10;9;49;10;32;49;32;50;32;51;32;55;10;10;69;110;100].
Proof. vm_compute. reflexivity. Qed.

(* C02, collected: for every improving algorithm the statement of C02 about
   THAT algorithm's model, derived from the PROPERTY THEOREMS of the algorithm's
   own development (Properties/C14 VnBest/VnFirst, C07 FiducciaMattheyses, C15
   KernighanLin, C05 ArcSwap).

   Maintenance rule (as in C01Collect.v): a lemma here may use the theorems
   [Cxx_...] and instantiated models of the other Properties files by their
   qualified names, definitions of Model/*.v, and the predicates those theorems
   are stated with; no lemma from the Proofs/*.v of another development
   (VnBest's "an in-contract input is answered by Ok" is C14_vnbest_ok_in_contract).
   One Module per algorithm. *)
From Coupe Require Import Lib.Prelude Lib.SFloat.
From Coq Require Import Floats.SpecFloat Permutation.
From Coupe Require Lib.Graph.
From Coupe Require Properties.C14 Properties.C07 Properties.C15 Properties.C05.


(* --------------------------------------------------------- VnBest, VnFirst *)
Module VnC.
  Import Coupe.Model.NumPart Coupe.Model.Vn.
  Open Scope Z_scope.

  (* whatever the input: never a panic, never out of fuel, and an Ok result is valid *)
  Lemma vnbest_any_input : forall flt ws p,
    (forall s, vn_best flt ws p <> Panic s) /\ vn_best flt ws p <> OutOfFuel
    /\ (forall p' n, vn_best flt ws p = Ok (p', n) ->
          length p' = length p /\ Forall (fun x => (x <= maxN p)%N) p').
  Proof.
    intros flt ws p. split; [intros s; apply C14.C14_vnbest_no_panic|]. split; [apply C14.C14_vnbest_terminates|].
    intros p' n E. pose proof (C14.C14_vnbest_gap flt ws p p' n E) as G. cbv zeta in G. destruct G as (A & B & _).
    split; assumption.
  Qed.

  (* under the contract VnBest returns Ok, keeps the length and writes no id
     above the input's maximum *)
  Lemma vnbest_collect : forall flt ws p, length ws = length p -> Forall (fun w => 0 <= w) ws ->
    exists p' n, vn_best flt ws p = Ok (p', n)
      /\ length p' = length p /\ Forall (fun x => (x <= maxN p)%N) p'.
  Proof.
    intros flt ws p Hl Hnn. destruct (vnbest_any_input flt ws p) as (_ & _ & V).
    destruct (C14.C14_vnbest_ok_in_contract flt ws p Hl Hnn) as (p' & n & E).
    exists p', n. split; [exact E|]. exact (V p' n E).
  Qed.

  Lemma vnfirst_collect : forall ws p, Forall (fun w => 0 <= w) ws -> length ws = length p ->
    exists p' n, vn_first ws p = Ok (p', n)
      /\ length p' = length p /\ Forall (fun x => (x <= maxN p)%N) p'.
  Proof.
    intros ws p Hnn Hl. destruct (C14.C14_vnfirst_total ws p Hnn Hl) as (p' & n & E & _).
    exists p', n. split; [exact E|].
    pose proof (C14.C14_vnfirst_gap ws p p' n Hnn E) as G. cbv zeta in G. destruct G as (A & B & _). split; assumption.
  Qed.
End VnC.

(* ------------------------------------------------------ FiducciaMattheyses *)
Module FmC.
  Import Coupe.Lib.Graph Coupe.Model.Fm Coupe.Proofs.FmProofs.   (* FmProofs: fm_contract only *)
  Open Scope Z_scope.

  (* for EVERY oracle (iteration order of the gain buckets): no panic, no
     fuel exhaustion, and a completed run returns a two-way array of the same length *)
  Lemma fm_collect : forall cfg fuel g ws p0 orc cap,
    fm_contract g ws p0 ->
    fm_cap (fm_max_imb cfg) (load ws p0 0, load ws p0 1) = Some cap ->
    (fm_fuel g p0 <= fuel)%nat ->
    (forall s, fm cfg fuel g ws p0 orc <> Panic s)
    /\ fm cfg fuel g ws p0 orc <> OutOfFuel
    /\ (forall p mpp rpp, fm cfg fuel g ws p0 orc = Ok (FmOk p mpp rpp) ->
          length p = length p0 /\ Forall (fun x => (x <= 1)%N) p).
  Proof.
    intros cfg fuel g ws p0 orc cap Hc Hcap Hf.
    split; [intros s; exact (C07.C07_no_panic cfg fuel g ws p0 orc cap s Hc Hcap)|].
    split; [exact (C07.C07_terminates cfg fuel g ws p0 orc Hc Hf)|].
    intros p mpp rpp E.
    destruct (C07.C07_sound cfg fuel g ws p0 orc cap p mpp rpp Hc Hcap E) as (A & B & _). split; [exact A|exact B].
  Qed.
End FmC.

(* ------------------------------------------------------------ KernighanLin *)
Module KlC.
  Import Coupe.Lib.Graph Coupe.Model.Kl.
  Open Scope Z_scope.

  Lemma count_pos_In x : forall p, (0 < count x p)%nat <-> In x p.
  Proof.
    induction p as [|y t IH]; cbn [count In]; [split; [lia|tauto]|].
    destruct (N.eqb_spec y x) as [->|Hne].
    - split; [auto|lia].
    - rewrite Nat.add_0_l, IH. split; [auto|intros [C|C]; [congruence|exact C]].
  Qed.

  Lemma same_sizes_In p q : same_sizes p q -> Forall (fun x => In x p) q.
  Proof.
    intros H. apply Forall_forall. intros x Hx. apply count_pos_In. rewrite <- (H x). apply count_pos_In, Hx.
  Qed.

  Definition maxN (p : list N) : N := fold_right N.max 0%N p.
  Lemma maxN_ge p x : In x p -> (x <= maxN p)%N.
  Proof.
    unfold maxN. induction p as [|y t IH]; cbn [In fold_right]; [tauto|].
    intros [->|H]; [lia|]. specialize (IH H). lia.
  Qed.

  (* what an Ok result satisfies: labels only permuted *)
  Definition kl_valid (p q : list N) : Prop :=
    length q = length p /\ same_sizes p q
    /\ Forall (fun x => In x p) q /\ Forall (fun x => (x <= maxN p)%N) q.

  Lemma sizes_valid p q : length q = length p -> same_sizes p q -> kl_valid p q.
  Proof.
    intros L S. split; [exact L|]. split; [exact S|]. pose proof (same_sizes_In p q S) as HI. split; [exact HI|].
    rewrite Forall_forall in *. intros x Hx. apply maxN_ge, HI, Hx.
  Qed.

  (* at most two part ids in use ([sp]: which edge_cut the topology type has):
     Ok at the fuel kl_fuel (initial cut + 2 passes); for every larger fuel no
     panic, no fuel exhaustion, and an Ok result is valid *)
  Lemma kl_collect : forall sp mp mf mb g wlen p,
    wf_graph g (length p) -> (sp = true -> rows_sorted g) -> nonneg_edges g -> (length p <= wlen)%nat ->
    (length (uniq [] p) <= 2)%nat ->
    (exists q, C15.kl_impl sp mp mf mb (kl_fuel sp g p) g wlen p = Ok q /\ kl_valid p q)
    /\ forall fuel, (kl_fuel sp g p <= fuel)%nat ->
         (forall s, C15.kl_impl sp mp mf mb fuel g wlen p <> Panic s)
         /\ C15.kl_impl sp mp mf mb fuel g wlen p <> OutOfFuel
         /\ (forall q, C15.kl_impl sp mp mf mb fuel g wlen p = Ok q -> kl_valid p q).
  Proof.
    intros sp mp mf mb g wlen p Hw Hso Hn Hwl Hu. split.
    - destruct (C15.C15_holds sp mp mf mb g wlen p Hw Hso Hn Hwl Hu) as (q & E & L & S & _).
      exists q. split; [exact E|]. exact (sizes_valid p q L S).
    - intros fuel Hf.
      split; [intros s; exact (C15.C15_no_panic sp mp mf mb fuel g wlen p s Hw Hwl Hu)|].
      split; [exact (C15.C15_terminates sp mp mf mb fuel g wlen p Hn Hf)|].
      intros q E. destruct (C15.C15_sizes sp mp mf mb fuel g wlen p q E) as [L S]. exact (sizes_valid p q L S).
  Qed.
End KlC.

(* ----------------------------------------------------------------- ArcSwap *)
Module AsC.
  Import Coupe.Model.ArcSwap Coupe.Proofs.ArcSwapTerm Coupe.Proofs.ArcSwapShare.   (* ArcSwapTerm: step_rel; ArcSwapShare: with_hr; nothing else *)
  Open Scope Z_scope.

  (* the fields of arc_swap's configuration, and the bound on the input ids, from the model *)
  Lemma config_fields hr g vw p0 T cap :
    let cf := config_of hr g vw p0 T cap in cf_g cf = g /\ cf_k cf = part_count p0.
  Proof. unfold config_of. destruct (work_share (length p0) T). cbn. auto. Qed.

  Lemma list_max_nat_ge p x : In x p -> (x <= list_max_nat p)%nat.
  Proof.
    unfold list_max_nat. induction p as [|y t IH]; cbn [In fold_right]; [tauto|].
    intros [->|H]; [lia|]. specialize (IH H). lia.
  Qed.

  Lemma ids_below_part_count p0 : Forall (fun x => (x < part_count p0)%nat) p0.
  Proof. apply Forall_forall. intros x Hx. apply list_max_nat_ge in Hx. unfold part_count. lia. Qed.

  (* every state reachable under ANY schedule, for any per-thread share
     function: the array keeps its length and every id is below part_count =
     max(2, 1 + largest input id) *)
  Lemma arcswap_ids : forall hr g vw p0 T cap st0 sch st,
    graph_ok g -> length p0 = length g ->
    let cf := config_of hr g vw p0 T cap in
    init_state cf p0 = Some st0 -> run cf st0 sch = Some st ->
    length (g_part st) = length p0 /\ Forall (fun x => (x < part_count p0)%nat) (g_part st)
    /\ ((1 <= list_max_nat p0)%nat -> Forall (fun x => (x <= list_max_nat p0)%nat) (g_part st)).
  Proof.
    intros hr g vw p0 T cap st0 sch st Hg Hl cf Hi Hr.
    destruct (config_fields hr g vw p0 T cap) as (E1 & E3). fold cf in E1, E3.
    pose proof (C05.C05_arcswap_accounting cf p0) as S. rewrite E1, E3 in S.
    destruct (S Hg Hl (ids_below_part_count p0) st0 sch st Hi Hr) as (_ & _ & A & B & _).
    split; [exact A|]. split; [exact B|].
    intros Hm. rewrite Forall_forall in *. intros x Hx. specialize (B x Hx). unfold part_count in B. lia.
  Qed.

  (* no panic, no deadlock, no infinite schedule, every run can be completed:
     arc_swap's own configuration with the exact per-thread share *)
  Lemma arcswap_runs : forall g vw p0 T cap,
    graph_ok g -> length vw = length g -> length p0 = length g -> (1 <= length g)%nat -> (1 <= T)%nat ->
    let cf := config_of headroom_quot g vw p0 T cap in
    init_state cf p0 <> None /\
    forall st0 sch st, init_state cf p0 = Some st0 -> run cf st0 sch = Some st ->
      (g_fin st = false ->
         (forall t w, nth_opt (g_ws st) t = Some w -> w_pc w <> PDone -> step cf st t <> None)
         /\ exists t st', step cf st t = Some st')
      /\ Acc (step_rel cf) st
      /\ (forall f : nat -> nat, exists m, run cf st (map f (seq 0 m)) = None)
      /\ (exists sch' st', run cf st sch' = Some st' /\ g_fin st' = true)
      /\ length (g_part st) = length p0 /\ Forall (fun x => (x < part_count p0)%nat) (g_part st).
  Proof.
    intros g vw p0 T cap Hg Hvw Hl Hn HT cf.
    pose proof (C05.C05_config_of_wf g vw p0 T cap Hg Hvw Hl Hn HT) as Hwf. fold cf in Hwf.
    destruct (config_fields headroom_quot g vw p0 T cap) as (E1 & E3). fold cf in E1, E3.
    assert (Hg' : graph_ok (cf_g cf)) by (rewrite E1; exact Hg).
    assert (Hl' : length p0 = length (cf_g cf)) by (rewrite E1; exact Hl).
    assert (Hids : Forall (fun x => (x < cf_k cf)%nat) p0) by (rewrite E3; apply ids_below_part_count).
    destruct (C05.C05_arcswap_no_panic cf p0 Hwf Hl' Hids) as [Hinit Hnp].
    split; [exact Hinit|]. intros st0 sch st Hi Hr.
    split; [intros Hf; exact (Hnp st0 sch st Hi Hr Hf)|].
    destruct (C05.C05_arcswap_terminates cf p0 Hg' Hl' Hids st0 sch st Hi Hr) as [A B].
    split; [exact A|]. split; [exact B|].
    split; [exact (C05.C05_arcswap_completes cf p0 Hg' Hwf Hl' Hids st0 sch st Hi Hr)|].
    destruct (arcswap_ids headroom_quot g vw p0 T cap st0 sch st Hg Hl Hi Hr) as (L & R & _). split; assumption.
  Qed.

  (* ---- the same for the share THE CODE computes (f64), from C05_f64_share_irrelevant ---- *)

  Lemma run_app cf : forall s1 st s2,
    run cf st (s1 ++ s2) = match run cf st s1 with Some st' => run cf st' s2 | None => None end.
  Proof.
    induction s1 as [|t r IH]; intros st s2; cbn [app run]; [reflexivity|].
    destruct (step cf st t) as [st'|]; [apply IH|reflexivity].
  Qed.

  Lemma run_one cf st t : run cf st [t] = step cf st t.
  Proof. cbn [run]. destruct (step cf st t); reflexivity. Qed.

  (* src/work_share.rs: between 1 and `total` threads *)
  Lemma work_share_tc total T : (1 <= total)%nat -> (1 <= T)%nat ->
    (1 <= snd (work_share total T) <= total)%nat.
  Proof.
    intros Ht HT. unfold work_share. cbn [snd].
    set (m := Nat.min total T). assert (Hm : (1 <= m <= total)%nat) by (unfold m; lia).
    set (per := ((total + m - 1) / m)%nat).
    assert (Hper : (1 <= per)%nat).
    { unfold per. apply Nat.div_le_lower_bound; lia. }
    split.
    - apply Nat.div_le_lower_bound; lia.
    - apply Nat.div_le_upper_bound; [lia|]. nia.
  Qed.

  Lemma config_with_hr hr hr' g vw p0 T cap :
    config_of hr' g vw p0 T cap = with_hr (config_of hr g vw p0 T cap) hr'.
  Proof. unfold config_of. destruct (work_share (length p0) T). reflexivity. Qed.

  Lemma config_more hr g vw p0 T cap :
    let cf := config_of hr g vw p0 T cap in
    cf_vw cf = vw /\ cf_cap cf = cap /\ cf_hr cf = hr /\ cf_tc cf = snd (work_share (length p0) T).
  Proof. unfold config_of. destruct (work_share (length p0) T). cbn. auto. Qed.

  Section F64.
    Variables (g : graph) (vw : list Z) (p0 : list nat) (T : nat) (cap : Z).
    Hypothesis Hg : graph_ok g.
    Hypothesis Hvw : length vw = length g.
    Hypothesis Hl : length p0 = length g.
    Hypothesis Hn : (1 <= length g)%nat.
    Hypothesis HT : (1 <= T)%nat.
    Hypothesis Hnn : Forall (fun x => 0 <= x) vw.
    Hypothesis Hbig : Z.of_nat (length g) <= 2 ^ 53.
    Hypothesis Hsum : Z.abs cap + sumZ vw < 2 ^ 53.

    Let cq := config_of headroom_quot g vw p0 T cap.
    Let cf := config_of headroom_f64 g vw p0 T cap.

    (* same prologue, same run on every schedule *)
    Lemma f64_same : init_state cf p0 = init_state cq p0
      /\ forall st0 sch, init_state cq p0 = Some st0 -> run cf st0 sch = run cq st0 sch.
    Proof.
      unfold cf. rewrite (config_with_hr headroom_quot headroom_f64). fold cq.
      destruct (config_fields headroom_quot g vw p0 T cap) as (E1 & E3). fold cq in E1, E3.
      destruct (config_more headroom_quot g vw p0 T cap) as (E2 & E4 & E5 & E6). fold cq in E2, E4, E5, E6.
      pose proof (work_share_tc (length p0) T ltac:(lia) HT) as Htc.
      apply (C05.C05_f64_share_irrelevant cq p0 E5).
      - rewrite E1; exact Hg.
      - rewrite E1; exact Hl.
      - rewrite E3; apply ids_below_part_count.
      - rewrite E2; exact Hnn.
      - rewrite E6. lia.
      - rewrite E4, E2. exact Hsum.
    Qed.

    Lemma arcswap_runs_f64 :
      init_state cf p0 <> None /\
      forall st0 sch st, init_state cf p0 = Some st0 -> run cf st0 sch = Some st ->
        (g_fin st = false ->
           (forall t w, nth_opt (g_ws st) t = Some w -> w_pc w <> PDone -> step cf st t <> None)
           /\ exists t st', step cf st t = Some st')
        /\ Acc (step_rel cf) st
        /\ (forall f : nat -> nat, exists m, run cf st (map f (seq 0 m)) = None)
        /\ (exists sch' st', run cf st sch' = Some st' /\ g_fin st' = true)
        /\ length (g_part st) = length p0 /\ Forall (fun x => (x < part_count p0)%nat) (g_part st).
    Proof.
      destruct f64_same as [Ei Er].
      destruct (arcswap_runs g vw p0 T cap Hg Hvw Hl Hn HT) as [Qi Qr]. fold cq in Qi, Qr.
      split; [rewrite Ei; exact Qi|].
      intros st0 sch st Hi Hr. rewrite Ei in Hi. pose proof Hr as Hr'. rewrite (Er st0 sch Hi) in Hr'.
      (* from a reachable state both machines run alike *)
      assert (Same : forall s st1, run cq st0 s = Some st1 -> forall s2, run cf st1 s2 = run cq st1 s2).
      { intros s st1 H1 s2. pose proof (Er st0 (s ++ s2) Hi) as E. rewrite !run_app in E.
        rewrite (Er st0 s Hi), H1 in E. exact E. }
      assert (SameStep : forall s st1, run cq st0 s = Some st1 -> forall t, step cf st1 t = step cq st1 t).
      { intros s st1 H1 t. rewrite <- !run_one. exact (Same s st1 H1 [t]). }
      destruct (Qr st0 sch st Hi Hr') as (P & A & B & Cc & L & R).
      split.
      { intros Hf. destruct (P Hf) as [P1 (t & st' & P2)]. split.
        - intros t0 w Hw Hpc. rewrite (SameStep sch st Hr'). exact (P1 t0 w Hw Hpc).
        - exists t, st'. rewrite (SameStep sch st Hr'). exact P2. }
      split.
      { clear P B Cc L R Hr. revert sch Hr'. induction A as [st _ IH]. intros sch Hr'.
        constructor. intros st' [t Ht]. rewrite (SameStep sch st Hr') in Ht.
        apply (IH st' (ex_intro _ t Ht) (sch ++ [t])). rewrite run_app, Hr', run_one. exact Ht. }
      split; [intros f; destruct (B f) as [m Hm]; exists m; rewrite (Same sch st Hr'); exact Hm|].
      split; [destruct Cc as (s' & st' & C1 & C2); exists s', st'; rewrite (Same sch st Hr'); split; assumption|].
      split; assumption.
    Qed.
  End F64.
End AsC.

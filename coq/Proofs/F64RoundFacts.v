(* The IEEE-754 facts about rounded + and - on binary64 that the termination
   proof of VnBest uses (Proofs/VnBestWTermination.v, [f64_rounding_facts]),
   proved for the operations the models execute (Lib/SFloat.f64_add / f64_sub =
   SpecFloat.SFadd / SFsub at (53,1024)) through Flocq: SpecFloat's rounding is
   Flocq's BinarySingleNaN rounding in mode NE (Proofs/F64AddExact.v), then
   Bplus_correct / Bminus_correct, monotonicity of rounding (round_le) and
   Bltb_correct.  This file uses the axioms of Coq's classical real numbers
   through Flocq. *)
From Coq Require Import ZArith Reals Lia Lra Bool Floats.SpecFloat.
From Flocq Require Import Core BinarySingleNaN.
From Coupe Require Import Lib.Prelude Lib.SFloat Model.ArithW Model.NumPart Model.Vn Model.VnW Proofs.F64AddExact Proofs.VnBestWTermination.
Open Scope R_scope.

#[local] Instance Hprec' : FLX.Prec_gt_0 53%Z := eq_refl _.
#[local] Instance Hmax' : Prec_lt_emax 53%Z 1024%Z := eq_refl _.
Notation bf64 := (binary_float 53 1024).
Notation rnd64 := (round radix2 (SpecFloat.fexp 53 1024) (round_mode mode_NE)).
Notation F64 := (generic_format radix2 (SpecFloat.fexp 53 1024)).

(* ---------- links ---------- *)

Lemma add_link' (x y : bf64) : f64_add (B2SF x) (B2SF y) = B2SF (Bplus mode_NE x y).
Proof. apply add_link. Qed.

Lemma sub_link (x y : bf64) : f64_sub (B2SF x) (B2SF y) = B2SF (Bminus mode_NE x y).
Proof.
  destruct x as [sx|sx| |sx mx ex Bx], y as [sy|sy| |sy my ey By];
    try reflexivity; try (cbn; destruct (Bool.eqb _ _); reflexivity).
  cbn. etransitivity; [|apply binary_normalize_equiv]. f_equal.
  unfold Fplus_naive. destruct sx, sy; cbn [cond_Zopp negb]; lia.
Qed.

Lemma ltb_link (x y : bf64) : SFltb (B2SF x) (B2SF y) = Bltb x y.
Proof. reflexivity. Qed.

Lemma rnd_mono a b : a <= b -> rnd64 a <= rnd64 b.
Proof. apply round_le; auto with typeclass_instances. apply fexp_correct; reflexivity. Qed.
Lemma rnd_id a : F64 a -> rnd64 a = a.
Proof. apply round_generic; auto with typeclass_instances. Qed.
Lemma rnd_0 : rnd64 0 = 0.
Proof. apply round_0; auto with typeclass_instances. Qed.
Lemma F64_B2R (x : bf64) : F64 (B2R x).
Proof. apply generic_format_B2R. Qed.

(* ---------- lifting the admitted values ---------- *)

Lemma lift x : okV x -> exists X : bf64, B2SF X = x /\ BinarySingleNaN.is_finite X = true /\ Bsign X = false /\ 0 <= B2R X.
Proof.
  intros [V H]. exists (SF2B x V). split; [apply B2SF_SF2B|].
  destruct x as [s|s| |s m e]; cbn [okV0] in H; try contradiction.
  - subst s. cbn. repeat split; auto. lra.
  - destruct H as [-> _]. cbn. repeat split; auto.
    apply F2R_ge_0. cbn. lia.
Qed.

(* bounds of a canonical mantissa / exponent *)
Lemma bounded_bounds m e : bounded 53 1024 m e = true -> (Z.pos m < 2 ^ 53 /\ -1074 <= e <= 971)%Z.
Proof.
  unfold bounded, canonical_mantissa. intros H. apply andb_true_iff in H as [H1 H2].
  apply Zeq_bool_eq in H1. apply Z.leb_le in H2. unfold SpecFloat.fexp, emin in H1.
  rewrite Zpos_digits2_pos in H1.
  pose proof (Zdigits_correct radix2 (Z.pos m)) as [_ Hd]. rewrite Z.abs_eq in Hd by lia.
  set (d := Zdigits radix2 (Z.pos m)) in *.
  assert (Hd53 : (d <= 53)%Z) by lia.
  split; [|lia].
  eapply Z.lt_le_trans; [exact Hd|]. change (radix2 ^ d)%Z with (2 ^ d)%Z.
  apply Z.pow_le_mono_r; lia.
Qed.

(* a finite, non-negative, positively signed Flocq number is an admitted value *)
Lemma okV_B2SF (X : bf64) : BinarySingleNaN.is_finite X = true -> Bsign X = false -> okV (B2SF X).
Proof.
  intros Hf Hs. split; [apply valid_binary_B2SF|].
  destruct X as [s|s| |s m e B]; try discriminate; cbn in *.
  - exact Hs.
  - split; [exact Hs|]. now apply bounded_bounds.
Qed.

Lemma ltb_false_of_le (X Y : bf64) : BinarySingleNaN.is_finite X = true -> BinarySingleNaN.is_finite Y = true ->
  B2R Y <= B2R X -> SFltb (B2SF X) (B2SF Y) = false.
Proof.
  intros Hx Hy H. rewrite ltb_link, Bltb_correct by assumption.
  apply Rlt_bool_false. exact H.
Qed.

Lemma ltb_true_lt (X Y : bf64) : BinarySingleNaN.is_finite X = true -> BinarySingleNaN.is_finite Y = true ->
  SFltb (B2SF X) (B2SF Y) = true -> B2R X < B2R Y.
Proof.
  intros Hx Hy H. rewrite ltb_link, Bltb_correct in H by assumption.
  destruct (Rlt_bool_spec (B2R X) (B2R Y)); [assumption|discriminate].
Qed.

Lemma ltb_false_le (X Y : bf64) : BinarySingleNaN.is_finite X = true -> BinarySingleNaN.is_finite Y = true ->
  SFltb (B2SF X) (B2SF Y) = false -> B2R Y <= B2R X.
Proof.
  intros Hx Hy H. rewrite ltb_link, Bltb_correct in H by assumption.
  destruct (Rlt_bool_spec (B2R X) (B2R Y)); [discriminate|assumption].
Qed.

Lemma B2R_lt_emax (X : bf64) : BinarySingleNaN.is_finite X = true -> Rabs (B2R X) < bpow radix2 1024.
Proof. intros H. apply abs_B2R_lt_emax. Qed.

(* a rounded value whose magnitude is bounded by a finite number does not overflow *)
Lemma no_overflow (r : R) (X : bf64) : Rabs r <= Rabs (B2R X) ->
  Rlt_bool (Rabs (rnd64 r)) (bpow radix2 1024) = true.
Proof.
  intros H. apply Rlt_bool_true.
  eapply Rle_lt_trans; [|apply (abs_B2R_lt_emax _ _ X)].
  eapply Rle_trans; [|exact (Rle_refl _)].
  apply abs_round_le_generic; auto with typeclass_instances.
  - apply fexp_correct; reflexivity.
  - apply generic_format_abs, F64_B2R.
Qed.

(* ---------- the two operations on non-negative finite numbers ---------- *)

Lemma minus_spec (X Y : bf64) : BinarySingleNaN.is_finite X = true -> BinarySingleNaN.is_finite Y = true ->
  0 <= B2R X -> 0 <= B2R Y ->
  B2R (Bminus mode_NE X Y) = rnd64 (B2R X - B2R Y) /\ BinarySingleNaN.is_finite (Bminus mode_NE X Y) = true
  /\ (B2R Y <= B2R X -> Bsign X = false -> Bsign (Bminus mode_NE X Y) = false).
Proof.
  intros Hx Hy Px Py. pose proof (Bminus_correct 53 1024 _ _ mode_NE X Y Hx Hy) as C.
  assert (NO : Rlt_bool (Rabs (rnd64 (B2R X - B2R Y))) (bpow radix2 1024) = true).
  { destruct (Rle_lt_dec (B2R Y) (B2R X)).
    - apply (no_overflow _ X). rewrite !Rabs_pos_eq by lra. lra.
    - apply (no_overflow _ Y). rewrite Rabs_left by lra. rewrite Rabs_pos_eq by lra. lra. }
  rewrite NO in C. destruct C as [C1 [C2 C3]]. split; [exact C1|]. split; [exact C2|].
  intros Hle Hs. rewrite C3. destruct (Rcompare_spec (B2R X - B2R Y) 0); auto; [lra|].
  now rewrite Hs.
Qed.

Lemma plus_spec_bounded (X Y Z : bf64) : BinarySingleNaN.is_finite X = true -> BinarySingleNaN.is_finite Y = true ->
  0 <= B2R X -> 0 <= B2R Y -> Bsign X = false -> Bsign Y = false -> B2R X + B2R Y <= B2R Z ->
  B2R (Bplus mode_NE X Y) = rnd64 (B2R X + B2R Y) /\ BinarySingleNaN.is_finite (Bplus mode_NE X Y) = true
  /\ Bsign (Bplus mode_NE X Y) = false.
Proof.
  intros Hx Hy Px Py Sx Sy Hz. pose proof (Bplus_correct 53 1024 _ _ mode_NE X Y Hx Hy) as C.
  assert (NO : Rlt_bool (Rabs (rnd64 (B2R X + B2R Y))) (bpow radix2 1024) = true).
  { apply (no_overflow _ Z). rewrite !Rabs_pos_eq by lra. lra. }
  rewrite NO in C. destruct C as [C1 [C2 C3]]. split; [exact C1|]. split; [exact C2|].
  rewrite C3, Sx, Sy. destruct (Rcompare_spec (B2R X + B2R Y) 0); auto. lra.
Qed.

(* w < fl(M - m)  gives  w <= M - m  exactly: rounding is monotone and w is a binary64 number *)
Lemma lt_rnd_le (w d : R) : F64 w -> w < rnd64 d -> w <= d.
Proof.
  intros Fw H. destruct (Rle_lt_dec w d) as [|C]; [assumption|exfalso].
  assert (rnd64 d <= rnd64 w) by (apply rnd_mono; lra). rewrite (rnd_id w Fw) in H0. lra.
Qed.

(* ---------- the facts ---------- *)

Lemma fact_sub_le x w : okV x -> okV w -> SFltb x (f64_sub x w) = false.
Proof.
  intros Hx Hw. destruct (lift x Hx) as [X [<- [Fx [Sx Px]]]]. destruct (lift w Hw) as [Wb [<- [Fw [Sw Pw]]]].
  rewrite sub_link. destruct (minus_spec X Wb Fx Fw Px Pw) as [R1 [R2 _]].
  apply ltb_false_of_le; auto. rewrite R1. rewrite <- (rnd_id (B2R X)) at 2 by apply F64_B2R.
  apply rnd_mono. lra.
Qed.

Lemma fact_within_sub M m w : okV M -> okV m -> okV w ->
  SFltb w (f64_sub M m) = true -> SFltb (f64_sub M w) m = false.
Proof.
  intros HM Hm Hw. destruct (lift M HM) as [MB [<- [FM [SM PM]]]]. destruct (lift m Hm) as [mB [<- [Fm [Sm Pm]]]].
  destruct (lift w Hw) as [Wb [<- [Fw [Sw Pw]]]].
  rewrite !sub_link. destruct (minus_spec MB mB FM Fm PM Pm) as [R1 [R2 _]].
  destruct (minus_spec MB Wb FM Fw PM Pw) as [Q1 [Q2 _]].
  intros H. apply ltb_true_lt in H; auto. rewrite R1 in H.
  apply lt_rnd_le in H; [|apply F64_B2R].
  apply ltb_false_of_le; auto. rewrite Q1. rewrite <- (rnd_id (B2R mB)) at 1 by apply F64_B2R.
  apply rnd_mono. lra.
Qed.

Lemma fact_within_add M m w : okV M -> okV m -> okV w ->
  SFltb w (f64_sub M m) = true -> SFltb M (f64_add m w) = false.
Proof.
  intros HM Hm Hw. destruct (lift M HM) as [MB [<- [FM [SM PM]]]]. destruct (lift m Hm) as [mB [<- [Fm [Sm Pm]]]].
  destruct (lift w Hw) as [Wb [<- [Fw [Sw Pw]]]].
  rewrite sub_link, add_link'. destruct (minus_spec MB mB FM Fm PM Pm) as [R1 [R2 _]].
  intros H. apply ltb_true_lt in H; auto. rewrite R1 in H.
  apply lt_rnd_le in H; [|apply F64_B2R].
  destruct (plus_spec_bounded mB Wb MB Fm Fw Pm Pw Sm Sw) as [Q1 [Q2 _]]; [lra|].
  apply ltb_false_of_le; auto. rewrite Q1. rewrite <- (rnd_id (B2R MB)) at 1 by apply F64_B2R.
  apply rnd_mono. lra.
Qed.

Lemma fact_sub_anti x w w' : okV x -> okV w -> okV w' ->
  SFltb w' w = false -> SFltb (f64_sub x w) (f64_sub x w') = false.
Proof.
  intros Hx Hw Hw'. destruct (lift x Hx) as [X [<- [Fx [Sx Px]]]]. destruct (lift w Hw) as [Wb [<- [Fw [Sw Pw]]]].
  destruct (lift w' Hw') as [Wb' [<- [Fw' [Sw' Pw']]]].
  intros H. apply ltb_false_le in H; auto.
  rewrite !sub_link. destruct (minus_spec X Wb Fx Fw Px Pw) as [R1 [R2 _]].
  destruct (minus_spec X Wb' Fx Fw' Px Pw') as [Q1 [Q2 _]].
  apply ltb_false_of_le; auto. rewrite R1, Q1. apply rnd_mono. lra.
Qed.

Lemma fact_add_ok M m w : okV M -> okV m -> okV w ->
  SFltb w (f64_sub M m) = true -> okV (f64_add m w).
Proof.
  intros HM Hm Hw. destruct (lift M HM) as [MB [<- [FM [SM PM]]]]. destruct (lift m Hm) as [mB [<- [Fm [Sm Pm]]]].
  destruct (lift w Hw) as [Wb [<- [Fw [Sw Pw]]]].
  rewrite sub_link, add_link'. destruct (minus_spec MB mB FM Fm PM Pm) as [R1 [R2 _]].
  intros H. apply ltb_true_lt in H; auto. rewrite R1 in H.
  apply lt_rnd_le in H; [|apply F64_B2R].
  destruct (plus_spec_bounded mB Wb MB Fm Fw Pm Pw Sm Sw) as [Q1 [Q2 Q3]]; [lra|].
  apply okV_B2SF; auto.
Qed.

Lemma fact_sub_ok M m w : okV M -> okV m -> okV w ->
  SFltb w (f64_sub M m) = true -> okV (f64_sub M w).
Proof.
  intros HM Hm Hw. destruct (lift M HM) as [MB [<- [FM [SM PM]]]]. destruct (lift m Hm) as [mB [<- [Fm [Sm Pm]]]].
  destruct (lift w Hw) as [Wb [<- [Fw [Sw Pw]]]].
  rewrite !sub_link. destruct (minus_spec MB mB FM Fm PM Pm) as [R1 [R2 _]].
  intros H. apply ltb_true_lt in H; auto. rewrite R1 in H.
  apply lt_rnd_le in H; [|apply F64_B2R].
  destruct (minus_spec MB Wb FM Fw PM Pw) as [Q1 [Q2 Q3]].
  apply okV_B2SF; auto. apply Q3; auto. lra.
Qed.

Lemma fact_gap_ok M m : okV M -> okV m -> SFltb M m = false -> okV (f64_sub M m).
Proof.
  intros HM Hm. destruct (lift M HM) as [MB [<- [FM [SM PM]]]]. destruct (lift m Hm) as [mB [<- [Fm [Sm Pm]]]].
  intros H. apply ltb_false_le in H; auto.
  rewrite sub_link. destruct (minus_spec MB mB FM Fm PM Pm) as [R1 [R2 R3]].
  apply okV_B2SF; auto.
Qed.

Lemma fact_sub_self x : okV x -> SFltb (S754_zero false) (f64_sub x x) = false.
Proof.
  intros Hx. destruct (lift x Hx) as [X [<- [Fx [Sx Px]]]].
  rewrite sub_link. destruct (minus_spec X X Fx Fx Px Px) as [R1 [R2 _]].
  change (S754_zero false) with (B2SF (B754_zero false : bf64)).
  apply ltb_false_of_le; auto. rewrite R1. replace (B2R X - B2R X) with 0 by lra. rewrite rnd_0. cbn. lra.
Qed.

(* ---------- the two facts where the sum may overflow ---------- *)

Lemma ltb_inf_l y : SFltb (S754_infinity false) y = false.
Proof. destruct y as [[]|[]| |[] ? ?]; reflexivity. Qed.

Lemma overflow_inf : binary_overflow 53 1024 mode_NE false = S754_infinity false.
Proof. reflexivity. Qed.

Lemma rnd_nonneg r : 0 <= r -> 0 <= rnd64 r.
Proof. intros H. rewrite <- rnd_0. now apply rnd_mono. Qed.

Lemma fact_add_ge x w : okV x -> okV w -> SFltb (f64_add x w) x = false.
Proof.
  intros Hx Hw. destruct (lift x Hx) as [X [<- [Fx [Sx Px]]]]. destruct (lift w Hw) as [Wb [<- [Fw [Sw Pw]]]].
  rewrite add_link'. pose proof (Bplus_correct 53 1024 _ _ mode_NE X Wb Fx Fw) as C.
  destruct (Rlt_bool _ _).
  - destruct C as [C1 [C2 _]]. apply ltb_false_of_le; auto. rewrite C1.
    rewrite <- (rnd_id (B2R X)) at 1 by apply F64_B2R. apply rnd_mono. lra.
  - destruct C as [C1 _]. rewrite C1, Sx, overflow_inf. apply ltb_inf_l.
Qed.

Lemma fact_add_mono x w w' : okV x -> okV w -> okV w' ->
  SFltb w' w = false -> SFltb (f64_add x w') (f64_add x w) = false.
Proof.
  intros Hx Hw Hw'. destruct (lift x Hx) as [X [<- [Fx [Sx Px]]]]. destruct (lift w Hw) as [Wb [<- [Fw [Sw Pw]]]].
  destruct (lift w' Hw') as [Wb' [<- [Fw' [Sw' Pw']]]].
  intros H. apply ltb_false_le in H; auto.
  rewrite !add_link'. pose proof (Bplus_correct 53 1024 _ _ mode_NE X Wb' Fx Fw') as C'.
  destruct (Rlt_bool_spec (Rabs (rnd64 (B2R X + B2R Wb'))) (bpow radix2 1024)) as [NO'|OV'].
  - destruct C' as [C1' [C2' _]].
    pose proof (Bplus_correct 53 1024 _ _ mode_NE X Wb Fx Fw) as C.
    assert (NO : Rlt_bool (Rabs (rnd64 (B2R X + B2R Wb))) (bpow radix2 1024) = true).
    { apply Rlt_bool_true. eapply Rle_lt_trans; [|exact NO'].
      rewrite !Rabs_pos_eq by (apply rnd_nonneg; lra). apply rnd_mono. lra. }
    rewrite NO in C. destruct C as [C1 [C2 _]].
    apply ltb_false_of_le; auto. rewrite C1, C1'. apply rnd_mono. lra.
  - destruct C' as [C1' _]. rewrite C1', Sx, overflow_inf. apply ltb_inf_l.
Qed.

(* ---------- all ten ---------- *)

Theorem f64_rounding_facts_hold : f64_rounding_facts.
Proof.
  constructor.
  - exact fact_add_ge.
  - exact fact_sub_le.
  - exact fact_within_sub.
  - exact fact_within_add.
  - exact fact_add_mono.
  - exact fact_sub_anti.
  - exact fact_add_ok.
  - exact fact_sub_ok.
  - exact fact_gap_ok.
  - exact fact_sub_self.
Qed.

(* VnBest with the progress test of fix 98041ea terminates on finite non-negative binary64 weights whose
   initial part loads are finite -- no premise about the arithmetic left *)
Theorem vn_bestW_f64_terminates_closed : forall ws p, Forall okV ws ->
  (forall L, parts_loadW F64arith ws p (part_count p) = Ok L -> Forall okV L) ->
  exists fuel0, forall fuel, (fuel0 <= fuel)%nat -> vn_bestW F64arith true fuel ws p <> OutOfFuel.
Proof. exact (vn_bestW_f64_terminates f64_rounding_facts_hold). Qed.

(* ====================================================================== *)
(* Greedy (C12): the admitted binary64 values are closed under +            *)
(* ====================================================================== *)
From Coupe Require Import Proofs.ArithWLemmas.
Open Scope R_scope.

(* +0, the positive finite numbers in canonical representation, and +infinity (a sum may overflow) *)
Definition okFv (x : spec_float) : Prop := valid_binary 53 1024 x = true /\ okF x.

Lemma okFv_okF x : okFv x -> okF x.
Proof. now intros [_ H]. Qed.

Lemma F64_order_laws_v : order_laws F64arith okFv.
Proof.
  pose proof F64_order_laws as [L1 L2 L3 L4 L5 L6].
  constructor.
  - intros x Hx. apply L1. now apply okFv_okF.
  - intros x y Hx Hy. apply L2; now apply okFv_okF.
  - intros x y z Hx Hy Hz. apply L3; now apply okFv_okF.
  - intros x y Hx Hy. apply L4; now apply okFv_okF.
  - intros x y Hx Hy. apply L5; now apply okFv_okF.
  - split; reflexivity.
Qed.

(* the rounded sum of two non-negative binary64 numbers is a non-negative number: never NaN, never -0.0
   (it may be +infinity) *)
Theorem F64_add_closed : add_closed F64arith okFv.
Proof.
  intros x y [Vx Hx] [Vy Hy]. cbn [F64arith w_add].
  destruct x as [sx|sx| |sx mx ex], y as [sy|sy| |sy my ey]; cbn [okF] in Hx, Hy; try contradiction; subst.
  - split; reflexivity.
  - split; reflexivity.
  - split; [exact Vy|reflexivity].
  - split; reflexivity.
  - split; reflexivity.
  - split; reflexivity.
  - split; [exact Vx|reflexivity].
  - split; reflexivity.
  - (* two positive finite numbers *)
    set (X := SF2B (S754_finite false mx ex) Vx : bf64). set (Y := SF2B (S754_finite false my ey) Vy : bf64).
    assert (EX : B2SF X = S754_finite false mx ex) by apply B2SF_SF2B.
    assert (EY : B2SF Y = S754_finite false my ey) by apply B2SF_SF2B.
    rewrite <- EX, <- EY, add_link'.
    assert (FX : BinarySingleNaN.is_finite X = true) by reflexivity.
    assert (FY : BinarySingleNaN.is_finite Y = true) by reflexivity.
    assert (SX : Bsign X = false) by reflexivity. assert (SY : Bsign Y = false) by reflexivity.
    assert (PX : 0 <= B2R X) by (apply F2R_ge_0; cbn; lia).
    assert (PY : 0 <= B2R Y) by (apply F2R_ge_0; cbn; lia).
    pose proof (Bplus_correct 53 1024 _ _ mode_NE X Y FX FY) as C.
    destruct (Rlt_bool _ _).
    + destruct C as [C1 [C2 C3]].
      assert (SS : Bsign (Bplus mode_NE X Y) = false).
      { rewrite C3, SX, SY. destruct (Rcompare_spec (B2R X + B2R Y) 0); auto. lra. }
      destruct (okV_B2SF _ C2 SS) as [V H]. split; [exact V|]. now apply okV0_okF.
    + destruct C as [C1 _]. rewrite C1, SX, overflow_inf. split; reflexivity.
Qed.

(* Generic reporting for the correspondence runs (cases_*.v files written by
   the Rust harness): each case is evaluated to a [verdict]; the report lists
   the indices that fail, and the class of every case (input distribution). *)
From Coupe Require Import Lib.Prelude.

(* what the implementation did on a partition call *)
Inductive impl_res :=
| IOk (p : list N)
| IErr (code a b : N)     (* 0 NotFound | 1 InputLenMismatch a b | 2 NegativeValues | 3 BiPartitioningOnly | 4 InvalidOrder a b *)
| IPanic
| IHang.

Fixpoint list_eqb {A} (eqb : A -> A -> bool) (a b : list A) : bool :=
  match a, b with
  | [], [] => true
  | x :: a', y :: b' => eqb x y && list_eqb eqb a' b'
  | _, _ => false
  end.

Definition err_matches (e : error) (code a b : N) : bool :=
  match e with
  | NotFound => (code =? 0)%N
  | InputLenMismatch ex ac => (code =? 1)%N && (N.of_nat ex =? a)%N && (N.of_nat ac =? b)%N
  | NegativeValues => (code =? 2)%N
  | BiPartitioningOnly => (code =? 3)%N
  | InvalidOrder mx ac => (code =? 4)%N && (mx =? a)%N && (ac =? b)%N
  end.

(* model result of a partition call = implementation result *)
Definition res_matches (r : res (list N)) (i : impl_res) : bool :=
  match r, i with
  | Ok p, IOk p' => list_eqb N.eqb p p'
  | Err e, IErr c a b => err_matches e c a b
  | Panic _, IPanic => true
  | _, _ => false
  end.

Record verdict := { corr_ok : bool; prop_ok : bool; cls : N }.

(* code: 1 = model <> implementation, 2 = property checker false, 3 = both *)
Fixpoint failures (i : N) (vs : list verdict) : list (N * N) :=
  match vs with
  | [] => []
  | v :: t =>
    let rest := failures (i + 1) t in
    match corr_ok v, prop_ok v with
    | true, true => rest
    | false, true => (i, 1%N) :: rest
    | true, false => (i, 2%N) :: rest
    | false, false => (i, 3%N) :: rest
    end
  end.

Definition report (vs : list verdict) : list (N * N) * list N := (failures 0 vs, map cls vs).

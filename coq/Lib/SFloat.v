(* IEEE-754 binary32 / binary64 arithmetic for the executable models, on Coq's
   proof-free reference implementation [Floats.SpecFloat] (DESIGN §3).
   Values cross the Rust/Coq boundary as bit patterns (N). *)
From Coq Require Import ZArith NArith Bool List Floats.SpecFloat Lia.
Import ListNotations.
Open Scope Z_scope.

Section Fmt.
  Variables prec emax : Z.          (* (24,128) or (53,1024) *)
  Let ebits := Z.log2 emax + 1.     (* 8 / 11 *)
  Let mbits := prec - 1.            (* 23 / 52 *)

  Definition of_bits (b : N) : spec_float :=
    let z := Z.of_N b in
    let s := Z.testbit z (ebits + mbits) in
    let e := Z.land (Z.shiftr z mbits) (2 ^ ebits - 1) in
    let m := Z.land z (2 ^ mbits - 1) in
    if e =? 0 then
      match m with
      | Zpos p => S754_finite s p (3 - emax - prec)
      | _ => S754_zero s
      end
    else if e =? 2 ^ ebits - 1 then
      (if m =? 0 then S754_infinity s else S754_nan)
    else
      match m + 2 ^ mbits with
      | Zpos p => S754_finite s p (e - emax - prec + 2)
      | _ => S754_nan (* unreachable *)
      end.

  (* NaN is mapped to the canonical quiet NaN. Only meaningful on valid floats. *)
  Definition to_bits (x : spec_float) : N :=
    let sgn (s : bool) := if s then 2 ^ (ebits + mbits) else 0 in
    Z.to_N
      match x with
      | S754_zero s => sgn s
      | S754_infinity s => sgn s + (2 ^ ebits - 1) * 2 ^ mbits
      | S754_nan => (2 ^ ebits - 1) * 2 ^ mbits + 2 ^ (mbits - 1)
      | S754_finite s m e =>
          if Zpos m <? 2 ^ mbits then sgn s + Zpos m
          else sgn s + (e + emax + prec - 2) * 2 ^ mbits + (Zpos m - 2 ^ mbits)
      end.

  Definition of_Z (z : Z) : spec_float := binary_normalize prec emax z 0 false.

  Definition fadd := SFadd prec emax.
  Definition fsub := SFsub prec emax.
  Definition fmul := SFmul prec emax.
  Definition fdiv := SFdiv prec emax.
  Definition fsqrt := SFsqrt prec emax.
End Fmt.

Definition fabs := SFabs.
Definition fopp := SFopp.
Definition flt := SFltb.
Definition fle := SFleb.
Definition feq := SFeqb.
Definition fcmp := SFcompare.

Definition is_nan (x : spec_float) : bool :=
  match x with S754_nan => true | _ => false end.
Definition is_finite (x : spec_float) : bool :=
  match x with S754_zero _ | S754_finite _ _ _ => true | _ => false end.

(* Rust `x as i64` / num_traits `to_i64`-style truncation toward zero of a
   finite value; [None] for NaN / infinities (callers decide: `as` saturates,
   `from_f64` returns None). *)
Definition trunc_Z (x : spec_float) : option Z :=
  match x with
  | S754_zero _ => Some 0
  | S754_finite s m e =>
      let mag := if 0 <=? e then Zpos m * 2 ^ e else Zpos m / 2 ^ (- e) in
      Some (if s then - mag else mag)
  | _ => None
  end.

Notation f64_of_bits := (of_bits 53 1024).
Notation f64_to_bits := (to_bits 53 1024).
Notation f64_of_Z := (of_Z 53 1024).
Notation f64_add := (fadd 53 1024).
Notation f64_sub := (fsub 53 1024).
Notation f64_mul := (fmul 53 1024).
Notation f64_div := (fdiv 53 1024).
Notation f64_sqrt := (fsqrt 53 1024).
Notation f32_of_bits := (of_bits 24 128).
Notation f32_to_bits := (to_bits 24 128).
Notation f32_of_Z := (of_Z 24 128).
Notation f32_add := (fadd 24 128).
Notation f32_sub := (fsub 24 128).
Notation f32_mul := (fmul 24 128).
Notation f32_div := (fdiv 24 128).

(* f64 -> f32 rounding conversion (`x as f32`) *)
Definition f64_to_f32 (x : spec_float) : spec_float :=
  match x with
  | S754_finite s m e => binary_round 24 128 s m e
  | _ => x
  end.

(* sanity: 1.0, 0.1, -2.5, subnormal, inf *)
Example bits_roundtrip :
  List.map (fun b => f64_to_bits (f64_of_bits b))
    (4607182418800017408 :: 4591870180066957722 :: 13836184514237661184 :: 1 :: 9218868437227405312 :: nil)%N
  = (4607182418800017408 :: 4591870180066957722 :: 13836184514237661184 :: 1 :: 9218868437227405312 :: nil)%N.
Proof. vm_compute. reflexivity. Qed.

Example f64_tenth_times_three :  (* 0.1 * 3.0 = 0.30000000000000004 *)
  f64_to_bits (f64_mul (f64_of_bits 4591870180066957722%N) (f64_of_Z 3)) = 4599075939470750516%N.
Proof. vm_compute. reflexivity. Qed.

Example f32_bits_roundtrip :
  List.map (fun b => f32_to_bits (f32_of_bits b)) (1065353216 :: 1036831949 :: 1 :: 3212836864 :: nil)%N
  = (1065353216 :: 1036831949 :: 1 :: 3212836864 :: nil)%N.
Proof. vm_compute. reflexivity. Qed.

(* Shared graph library (C05, C07, C15, C16).

   * adjacency in the shape coupe's `Topology::neighbors` yields it: one row
     per vertex, a row = the list of (neighbour, edge weight) in CSR order;
     partitions are lists of part ids (N);
   * [edge_cut]: `Topology::edge_cut` (src/topology/mod.rs): for every vertex
     the weights of its neighbours u < v lying in another part;
     [edge_cut_sprs]: the override of src/topology/sprs.rs (take_while u < v,
     then the part filter) -- equal on sorted rows ([edge_cut_sprs_eq]);
   * [symmetric] / [no_self_loop] / [pos_edges] with boolean versions;
   * [cut_move] / [cut_flip]: moving one vertex changes the cut by exactly
     minus its gain (ported from design-probes/CutMove.v; axiom-free), first
     over an abstract pair-weight function, then for adjacency lists
     ([edge_cut_set] / [edge_cut_flip]). *)
From Coupe Require Import Lib.Prelude.
Open Scope Z_scope.

Definition row := list (nat * Z).
Definition graph := list row.
Definition part := nat -> N.

(* -------------------------------------------------------------- finite sums *)

Fixpoint sumn (n : nat) (f : nat -> Z) : Z :=
  match n with O => 0 | S m => sumn m f + f m end.

Lemma sumn_ext n f g : (forall i, (i < n)%nat -> f i = g i) -> sumn n f = sumn n g.
Proof. induction n as [|m IH]; cbn [sumn]; intros H; auto. rewrite IH, H; auto. Qed.

Lemma sumn_sub n f g : sumn n f - sumn n g = sumn n (fun i => f i - g i).
Proof. induction n as [|m IH]; cbn [sumn]; lia. Qed.

Lemma sumn_add n f g : sumn n f + sumn n g = sumn n (fun i => f i + g i).
Proof. induction n as [|m IH]; cbn [sumn]; lia. Qed.

Lemma sumn_zero n f : (forall i, (i < n)%nat -> f i = 0) -> sumn n f = 0.
Proof. induction n as [|m IH]; cbn [sumn]; intros H; auto. rewrite IH, H; auto. Qed.

Lemma sumn_nonneg n f : (forall i, (i < n)%nat -> 0 <= f i) -> 0 <= sumn n f.
Proof.
  induction n as [|m IH]; cbn [sumn]; intros H; [lia|].
  assert (0 <= sumn m f) by (apply IH; intros; apply H; lia).
  assert (0 <= f m) by (apply H; lia). lia.
Qed.

(* a sum whose terms vanish except possibly at x *)
Lemma sumn_single n f x : (forall i, (i < n)%nat -> i <> x -> f i = 0) ->
  sumn n f = if Nat.ltb x n then f x else 0.
Proof.
  induction n as [|m IH]; cbn [sumn]; intros H.
  - destruct (Nat.ltb_spec x 0); [lia|reflexivity].
  - rewrite IH by (intros; apply H; lia).
    destruct (Nat.ltb_spec x m) as [L1|L1]; destruct (Nat.ltb_spec x (S m)) as [L2|L2]; try lia.
    + rewrite (H m) by lia. lia.
    + assert (x = m) by lia. subst. lia.
    + rewrite (H m) by lia. lia.
Qed.

(* terms beyond m vanish *)
Lemma sumn_trunc n m f : (m <= n)%nat -> (forall i, (m <= i < n)%nat -> f i = 0) ->
  sumn n f = sumn m f.
Proof.
  induction n as [|k IH]; intros Hm Hz.
  - assert (m = 0)%nat by lia. subst. reflexivity.
  - destruct (Nat.eq_dec m (S k)) as [->|Hne]; [reflexivity|].
    cbn [sumn]. rewrite IH by (try lia; intros; apply Hz; lia). rewrite Hz by lia. lia.
Qed.

(* ------------------------------------------- the cut over pair weights (abstract) *)

Section Cut.
Variable wt : nat -> nat -> Z.                 (* total weight of the edges between two vertices *)
Hypothesis wt_sym : forall u v, wt u v = wt v u.

Definition upd (p : part) (x : nat) (b : N) : part := fun v => if Nat.eqb v x then b else p v.

(* contribution of the pair (u,v) *)
Definition cross (p : part) (u v : nat) : Z := if N.eqb (p u) (p v) then 0 else wt v u.

(* Topology::edge_cut: sum over v of the neighbours u < v in another part *)
Fixpoint cut (n : nat) (p : part) : Z :=
  match n with O => 0 | S m => cut m p + sumn m (fun u => cross p u m) end.

(* gain of moving x to part b, as ArcSwap / FM compute it from x's adjacency row, restricted to u < n *)
Definition gterm (p : part) (x : nat) (b : N) (u : nat) : Z :=
  if Nat.eqb u x then 0
  else if N.eqb (p u) (p x) then - wt x u
  else if N.eqb (p u) b then wt x u else 0.
Definition gain (n : nat) (p : part) (x : nat) (b : N) : Z := sumn n (gterm p x b).

Lemma upd_same p x b : upd p x b x = b.
Proof. unfold upd. now rewrite Nat.eqb_refl. Qed.
Lemma upd_other p x b v : v <> x -> upd p x b v = p v.
Proof. unfold upd. intros H. apply Nat.eqb_neq in H. now rewrite H. Qed.

Lemma cross_other p x b u v : u <> x -> v <> x -> cross (upd p x b) u v = cross p u v.
Proof. intros; unfold cross; now rewrite !upd_other. Qed.

Lemma cut_untouched : forall n p x b, (n <= x)%nat -> cut n (upd p x b) = cut n p.
Proof.
  induction n as [|m IH]; intros p x b H; [reflexivity|].
  cbn [cut]. rewrite IH by lia. f_equal.
  apply sumn_ext; intros u Hu. apply cross_other; lia.
Qed.

Lemma cut_ext : forall n p q, (forall v, (v < n)%nat -> p v = q v) -> cut n p = cut n q.
Proof.
  induction n as [|m IH]; intros p q H; [reflexivity|].
  cbn [cut]. rewrite (IH p q) by (intros; apply H; lia). f_equal.
  apply sumn_ext; intros u Hu. unfold cross. rewrite !H by lia. reflexivity.
Qed.

(* the row of the moved vertex: every term may change *)
Lemma row_moved p x b : p x <> b ->
  sumn x (fun u => cross (upd p x b) u x) = sumn x (fun u => cross p u x) - sumn x (gterm p x b).
Proof.
  intros Hb. rewrite sumn_sub. apply sumn_ext; intros u Hu.
  unfold cross, gterm. rewrite upd_same, upd_other by lia.
  replace (Nat.eqb u x) with false by (symmetry; apply Nat.eqb_neq; lia).
  destruct (N.eqb_spec (p u) (p x)) as [E|E].
  - rewrite E. destruct (N.eqb_spec (p x) b); [contradiction|]. lia.
  - destruct (N.eqb_spec (p u) b); lia.
Qed.

(* the row of another vertex m > x: only the term u = x changes *)
Lemma row_other p x b m : (x < m)%nat -> p x <> b ->
  sumn m (fun u => cross (upd p x b) u m) = sumn m (fun u => cross p u m) - gterm p x b m.
Proof.
  intros Hx Hb.
  assert (E : sumn m (fun u => cross (upd p x b) u m) - sumn m (fun u => cross p u m) = - gterm p x b m).
  { rewrite sumn_sub. rewrite (sumn_single _ _ x).
    - replace (Nat.ltb x m) with true by (symmetry; apply Nat.ltb_lt; lia).
      unfold cross, gterm. rewrite upd_same, upd_other by lia.
      replace (Nat.eqb m x) with false by (symmetry; apply Nat.eqb_neq; lia).
      rewrite (wt_sym m x).
      destruct (N.eqb_spec (p m) (p x)) as [E|E].
      + rewrite <- E. rewrite N.eqb_refl.
        destruct (N.eqb_spec b (p m)); [congruence|]. lia.
      + destruct (N.eqb_spec (p x) (p m)); [congruence|].
        destruct (N.eqb_spec b (p m)), (N.eqb_spec (p m) b); try congruence; lia.
    - intros i Hi Hne. rewrite cross_other by lia. lia. }
  lia.
Qed.

Theorem cut_move : forall n p x b, (x < n)%nat -> p x <> b ->
  cut n (upd p x b) = cut n p - gain n p x b.
Proof.
  induction n as [|m IH]; intros p x b Hx Hb; [lia|].
  cbn [cut]. unfold gain. cbn [sumn]. fold (gain m p x b).
  destruct (Nat.eq_dec x m) as [->|Hne].
  - rewrite cut_untouched by lia. rewrite row_moved by assumption.
    unfold gain. replace (gterm p m b m) with 0 by (unfold gterm; now rewrite Nat.eqb_refl). lia.
  - rewrite IH by (try assumption; lia). rewrite row_other by (try assumption; lia). lia.
Qed.

(* two-way corollary (FM, KL): flipping x changes the cut by minus the FM gain *)
Definition flip (p : part) (x : nat) : part := upd p x (1 - p x)%N.
Corollary cut_flip n p x : (x < n)%nat -> (p x <= 1)%N ->
  cut n (flip p x) = cut n p - gain n p x (1 - p x)%N.
Proof. intros Hx Hp. apply cut_move; auto. lia. Qed.

Lemma cut_nonneg : (forall u v, 0 <= wt u v) -> forall n p, 0 <= cut n p.
Proof.
  intros Hw. induction n as [|m IH]; intros p; cbn [cut]; [lia|].
  specialize (IH p).
  assert (0 <= sumn m (fun u => cross p u m)).
  { apply sumn_nonneg. intros i _. unfold cross. destruct (N.eqb _ _); [lia|apply Hw]. }
  lia.
Qed.
End Cut.

(* ------------------------------------------------------- adjacency lists *)

Definition pfun (p : list N) : part := fun v => nth v p 0%N.
Definition rowof (g : graph) (v : nat) : row := nth v g [].

(* every row exists and every neighbour index is a vertex *)
Definition wf_graph (g : graph) (n : nat) : Prop :=
  length g = n /\ Forall (Forall (fun e => (fst e < n)%nat)) g.
Definition wf_graphb (g : graph) (n : nat) : bool :=
  Nat.eqb (length g) n && forallb (forallb (fun e => Nat.ltb (fst e) n)) g.

(* Topology::edge_cut, one vertex: filter (part differs && u < v), sum *)
Definition row_cut (pf : part) (v : nat) (r : row) : Z :=
  sumZ (map (fun e => if Nat.ltb (fst e) v && negb (N.eqb (pf (fst e)) (pf v)) then snd e else 0) r).
Definition edge_cut_f (g : graph) (pf : part) : Z :=
  sumn (length g) (fun v => row_cut pf v (rowof g v)).
Definition edge_cut (g : graph) (p : list N) : Z := edge_cut_f g (pfun p).

(* CsMatView::edge_cut, one vertex: take_while (u < v), filter (part differs), sum *)
Fixpoint row_cut_sprs (pf : part) (v : nat) (r : row) : Z :=
  match r with
  | [] => 0
  | e :: t => if Nat.ltb (fst e) v
              then (if N.eqb (pf (fst e)) (pf v) then 0 else snd e) + row_cut_sprs pf v t
              else 0
  end.
Definition edge_cut_sprs (g : graph) (p : list N) : Z :=
  sumn (length g) (fun v => row_cut_sprs (pfun p) v (rowof g v)).

(* CSR rows hold their column indices in increasing order *)
Fixpoint row_sorted (r : row) : Prop :=
  match r with
  | [] => True
  | e :: t => Forall (fun e' => (fst e <= fst e')%nat) t /\ row_sorted t
  end.
Fixpoint row_sortedb (r : row) : bool :=
  match r with
  | [] => true
  | e :: t => forallb (fun e' => Nat.leb (fst e) (fst e')) t && row_sortedb t
  end.
Definition rows_sorted (g : graph) : Prop := Forall row_sorted g.
Definition rows_sortedb (g : graph) : bool := forallb row_sortedb g.

(* total weight of the entries (v,u) *)
Definition wt_row (r : row) (u : nat) : Z :=
  sumZ (map (fun e => if Nat.eqb (fst e) u then snd e else 0) r).
Definition wt (g : graph) (v u : nat) : Z := wt_row (rowof g v) u.

Definition symmetric (g : graph) : Prop := forall u v, wt g u v = wt g v u.
Definition no_self_loop (g : graph) : Prop := forall v, Forall (fun e => fst e <> v) (rowof g v).
Definition pos_edges (g : graph) : Prop := Forall (Forall (fun e => 0 < snd e)) g.
Definition nonneg_edges (g : graph) : Prop := Forall (Forall (fun e => 0 <= snd e)) g.

Definition symmetricb (g : graph) : bool :=
  let n := length g in
  forallb (fun v => forallb (fun u => wt g v u =? wt g u v) (seq 0 n)) (seq 0 n).
Definition no_self_loopb (g : graph) : bool :=
  forallb (fun vr => forallb (fun e => negb (Nat.eqb (fst e) (fst vr))) (snd vr)) (combine (seq 0 (length g)) g).
Definition pos_edgesb (g : graph) : bool := forallb (forallb (fun e => 0 <? snd e)) g.

(* FM's gain of a vertex as computed from its row: neighbours in the same part
   count negatively, the others positively *)
Definition row_gain (pf : part) (v : nat) (r : row) : Z :=
  sumZ (map (fun e => if N.eqb (pf (fst e)) (pf v) then - snd e else snd e) r).

(* ------------------------------------------------------------------ lemmas *)

Lemma sumZ_cons x l : sumZ (x :: l) = x + sumZ l.
Proof. reflexivity. Qed.

Lemma wf_graphb_ok g n : wf_graphb g n = true <-> wf_graph g n.
Proof.
  unfold wf_graphb, wf_graph. rewrite andb_true_iff, Nat.eqb_eq, forallb_forall, Forall_forall.
  split; intros [H1 H2]; split; auto; intros r Hr.
  - specialize (H2 r Hr). rewrite forallb_forall in H2. apply Forall_forall. intros e He.
    apply Nat.ltb_lt. auto.
  - specialize (H2 r Hr). rewrite Forall_forall in H2. apply forallb_forall. intros e He.
    apply Nat.ltb_lt. auto.
Qed.

Lemma rowof_wf g n v : wf_graph g n -> Forall (fun e => (fst e < n)%nat) (rowof g v).
Proof.
  intros [_ H]. unfold rowof. destruct (Nat.lt_ge_cases v (length g)) as [L|L].
  - rewrite Forall_forall in H. apply H. apply nth_In. exact L.
  - rewrite nth_overflow by lia. constructor.
Qed.

Lemma row_sortedb_ok r : row_sortedb r = true -> row_sorted r.
Proof.
  induction r as [|e t IH]; cbn [row_sortedb row_sorted]; intros H; [exact I|].
  apply andb_true_iff in H. destruct H as [H1 H2]. split; [|auto].
  rewrite forallb_forall in H1. apply Forall_forall. intros e' He'. apply Nat.leb_le. auto.
Qed.

Lemma rows_sortedb_ok g : rows_sortedb g = true -> rows_sorted g.
Proof.
  unfold rows_sortedb, rows_sorted. rewrite forallb_forall, Forall_forall.
  intros H r Hr. apply row_sortedb_ok. auto.
Qed.

Lemma row_cut_sprs_eq pf v r : row_sorted r -> row_cut_sprs pf v r = row_cut pf v r.
Proof.
  induction r as [|e t IH]; intros Hs; [reflexivity|].
  cbn [row_sorted] in Hs. destruct Hs as [Hle Hs].
  unfold row_cut. cbn [row_cut_sprs map]. rewrite sumZ_cons. fold (row_cut pf v t).
  destruct (Nat.ltb_spec (fst e) v) as [L|L].
  - rewrite IH by assumption. destruct (N.eqb _ _); cbn [negb andb]; lia.
  - cbn [andb].
    assert (Z0 : row_cut pf v t = 0).
    { unfold row_cut. clear IH Hs. induction t as [|e' t' IH']; [reflexivity|].
      inversion Hle as [|? ? Hle1 Hle2]; subst. cbn [map]. rewrite sumZ_cons, IH' by assumption.
      destruct (Nat.ltb_spec (fst e') v); [lia|]. reflexivity. }
    lia.
Qed.

Lemma rowof_sorted g v : rows_sorted g -> row_sorted (rowof g v).
Proof.
  intros H. unfold rowof. destruct (Nat.lt_ge_cases v (length g)) as [L|L].
  - unfold rows_sorted in H. rewrite Forall_forall in H. apply H. apply nth_In. exact L.
  - rewrite nth_overflow by lia. exact I.
Qed.

Theorem edge_cut_sprs_eq g p : rows_sorted g -> edge_cut_sprs g p = edge_cut g p.
Proof.
  intros H. unfold edge_cut_sprs, edge_cut, edge_cut_f. apply sumn_ext. intros v _.
  apply row_cut_sprs_eq. apply rowof_sorted. exact H.
Qed.

(* a weighted sum over a row = the sum over vertices of the pair weights *)
Lemma row_sum_wt (c : nat -> Z) n r : Forall (fun e => (fst e < n)%nat) r ->
  sumZ (map (fun e => c (fst e) * snd e) r) = sumn n (fun u => c u * wt_row r u).
Proof.
  induction r as [|e t IH]; intros Hr.
  - cbn [map]. unfold wt_row. cbn [map]. symmetry. apply sumn_zero. intros; unfold sumZ; cbn; lia.
  - inversion Hr as [|? ? He Ht]; subst. cbn [map]. rewrite sumZ_cons, IH by assumption.
    transitivity (sumn n (fun u => (if Nat.eqb u (fst e) then c u * snd e else 0)) + sumn n (fun u => c u * wt_row t u)).
    + f_equal. rewrite (sumn_single _ _ (fst e)).
      * replace (Nat.ltb (fst e) n) with true by (symmetry; apply Nat.ltb_lt; exact He).
        now rewrite Nat.eqb_refl.
      * intros i _ Hne. apply Nat.eqb_neq in Hne. now rewrite Hne.
    + rewrite sumn_add. apply sumn_ext. intros u _. unfold wt_row. cbn [map]. rewrite sumZ_cons.
      rewrite (Nat.eqb_sym (fst e) u). destruct (Nat.eqb u (fst e)); lia.
Qed.

Lemma wt_row_nil u : wt_row [] u = 0.
Proof. reflexivity. Qed.

Lemma wt_row_out n r u : Forall (fun e => (fst e < n)%nat) r -> (n <= u)%nat -> wt_row r u = 0.
Proof.
  intros Hr Hu. unfold wt_row. induction Hr as [|e t He Ht IH]; [reflexivity|].
  cbn [map]. rewrite sumZ_cons, IH. destruct (Nat.eqb_spec (fst e) u); [lia|reflexivity].
Qed.

Lemma wt_out_row g v u : (length g <= v)%nat -> wt g v u = 0.
Proof. intros H. unfold wt, rowof. now rewrite nth_overflow by lia. Qed.

Lemma wt_out_col g n v u : wf_graph g n -> (n <= u)%nat -> wt g v u = 0.
Proof. intros Hw Hu. unfold wt. eapply wt_row_out; [apply rowof_wf; exact Hw|exact Hu]. Qed.

Lemma wt_nonneg g u v : nonneg_edges g -> 0 <= wt g u v.
Proof.
  intros H. unfold wt, rowof.
  assert (Hr : Forall (fun e => 0 <= snd e) (nth u g [])).
  { destruct (Nat.lt_ge_cases u (length g)) as [L|L].
    - unfold nonneg_edges in H. rewrite Forall_forall in H. apply H. apply nth_In. exact L.
    - rewrite nth_overflow by lia. constructor. }
  unfold wt_row. induction Hr as [|e t He Ht IH]; [unfold sumZ; cbn; lia|].
  cbn [map]. rewrite sumZ_cons. destruct (Nat.eqb _ _); lia.
Qed.

Lemma pos_nonneg_edges g : pos_edges g -> nonneg_edges g.
Proof.
  unfold pos_edges, nonneg_edges. intros H. eapply Forall_impl; [|exact H].
  intros r Hr. eapply Forall_impl; [|exact Hr]. cbn. intros; lia.
Qed.

Lemma pos_edgesb_ok g : pos_edgesb g = true -> pos_edges g.
Proof.
  unfold pos_edgesb, pos_edges. rewrite forallb_forall, Forall_forall. intros H r Hr.
  specialize (H r Hr). rewrite forallb_forall in H. apply Forall_forall. intros e He.
  apply Z.ltb_lt. auto.
Qed.

Lemma symmetricb_ok g : wf_graph g (length g) -> symmetricb g = true -> symmetric g.
Proof.
  intros Hw H u v. unfold symmetricb in H. rewrite forallb_forall in H.
  destruct (Nat.lt_ge_cases u (length g)) as [Lu|Lu]; destruct (Nat.lt_ge_cases v (length g)) as [Lv|Lv].
  - specialize (H u). rewrite in_seq in H. specialize (H ltac:(lia)).
    rewrite forallb_forall in H. specialize (H v). rewrite in_seq in H. specialize (H ltac:(lia)).
    apply Z.eqb_eq. exact H.
  - rewrite (wt_out_col g _ u v Hw Lv), (wt_out_row g v u Lv). reflexivity.
  - rewrite (wt_out_row g u v Lu), (wt_out_col g _ v u Hw Lu). reflexivity.
  - rewrite (wt_out_row g u v Lu), (wt_out_row g v u Lv). reflexivity.
Qed.

Lemma no_self_loopb_ok g : no_self_loopb g = true -> no_self_loop g.
Proof.
  intros H v. unfold rowof. destruct (Nat.lt_ge_cases v (length g)) as [L|L].
  - unfold no_self_loopb in H. rewrite forallb_forall in H.
    specialize (H (v, nth v g [])).
    assert (Hin : In (v, nth v g []) (combine (seq 0 (length g)) g)).
    { replace (v, nth v g []) with (nth v (combine (seq 0 (length g)) g) (0%nat, [])).
      - apply nth_In. rewrite combine_length, seq_length. lia.
      - rewrite combine_nth by (rewrite seq_length; reflexivity). rewrite seq_nth by lia. reflexivity. }
    specialize (H Hin). cbn [fst snd] in H. rewrite forallb_forall in H.
    apply Forall_forall. intros e He. specialize (H e He).
    apply negb_true_iff in H. apply Nat.eqb_neq in H. exact H.
  - rewrite nth_overflow by lia. constructor.
Qed.

Lemma wt_self_zero g v : no_self_loop g -> wt g v v = 0.
Proof.
  intros H. specialize (H v). unfold wt, wt_row.
  induction H as [|e t He Ht IH]; [reflexivity|].
  cbn [map]. rewrite sumZ_cons, IH. destruct (Nat.eqb_spec (fst e) v); [contradiction|reflexivity].
Qed.

(* the list cut is the abstract cut over the pair weights *)
Lemma row_cut_wt g n pf v : wf_graph g n -> (v <= n)%nat ->
  row_cut pf v (rowof g v) = sumn v (fun u => cross (wt g) pf u v).
Proof.
  intros Hw Hv. unfold row_cut.
  rewrite (map_ext _ (fun e => (if Nat.ltb (fst e) v && negb (N.eqb (pf (fst e)) (pf v)) then 1 else 0) * snd e))
    by (intros e; destruct (_ && _); lia).
  rewrite (row_sum_wt (fun u => if Nat.ltb u v && negb (N.eqb (pf u) (pf v)) then 1 else 0) n)
    by (apply rowof_wf; exact Hw).
  rewrite (sumn_trunc n v); [|lia|intros i Hi; destruct (Nat.ltb_spec i v); [lia|reflexivity]].
  apply sumn_ext. intros u Hu. unfold cross, wt.
  replace (Nat.ltb u v) with true by (symmetry; apply Nat.ltb_lt; lia).
  destruct (N.eqb _ _); cbn [negb andb]; lia.
Qed.

Theorem edge_cut_f_cut g n pf : wf_graph g n -> edge_cut_f g pf = cut (wt g) n pf.
Proof.
  intros Hw. unfold edge_cut_f. destruct Hw as [Hl Hf]. rewrite Hl.
  assert (Hw : wf_graph g n) by (split; assumption).
  assert (G : forall m, (m <= n)%nat -> sumn m (fun v => row_cut pf v (rowof g v)) = cut (wt g) m pf).
  { induction m as [|m IH]; intros Hm; [reflexivity|].
    cbn [sumn cut]. rewrite IH by lia. f_equal. apply (row_cut_wt g n); [exact Hw|lia]. }
  apply G. lia.
Qed.

Lemma edge_cut_nonneg g p : nonneg_edges g -> 0 <= edge_cut g p.
Proof.
  intros H. unfold edge_cut, edge_cut_f. apply sumn_nonneg. intros v _. unfold row_cut, rowof.
  assert (Hr : Forall (fun e => 0 <= snd e) (nth v g [])).
  { destruct (Nat.lt_ge_cases v (length g)) as [L|L].
    - unfold nonneg_edges in H. rewrite Forall_forall in H. apply H. apply nth_In. exact L.
    - rewrite nth_overflow by lia. constructor. }
  induction Hr as [|e t He Ht IH]; [unfold sumZ; cbn; lia|].
  cbn [map]. rewrite sumZ_cons. destruct (_ && _); lia.
Qed.

Lemma edge_cut_sprs_nonneg g p : nonneg_edges g -> 0 <= edge_cut_sprs g p.
Proof.
  intros H. unfold edge_cut_sprs. apply sumn_nonneg. intros v _. unfold rowof.
  assert (Hr : Forall (fun e => 0 <= snd e) (nth v g [])).
  { destruct (Nat.lt_ge_cases v (length g)) as [L|L].
    - unfold nonneg_edges in H. rewrite Forall_forall in H. apply H. apply nth_In. exact L.
    - rewrite nth_overflow by lia. constructor. }
  induction Hr as [|e t He Ht IH]; cbn [row_cut_sprs]; [lia|].
  destruct (Nat.ltb _ _); [|lia]. destruct (N.eqb _ _); lia.
Qed.

Lemma pfun_set_nth p x b v : (x < length p)%nat -> pfun (set_nth p x b) v = upd (pfun p) x b v.
Proof.
  unfold pfun, upd. revert x v. induction p as [|a t IH]; intros x v Hx; [cbn in Hx; lia|].
  destruct x as [|x]; destruct v as [|v]; cbn [set_nth nth Nat.eqb]; auto.
  apply IH. cbn in Hx. lia.
Qed.

Lemma edge_cut_f_ext g n pf qf : wf_graph g n -> (forall v, (v < n)%nat -> pf v = qf v) ->
  edge_cut_f g pf = edge_cut_f g qf.
Proof. intros Hw H. rewrite !(edge_cut_f_cut g n) by assumption. apply cut_ext. exact H. Qed.

(* the row gain is the abstract two-way gain *)
Lemma row_gain_gain g n pf v : wf_graph g n -> no_self_loop g ->
  (forall u, (pf u <= 1)%N) ->
  row_gain pf v (rowof g v) = gain (wt g) n pf v (1 - pf v)%N.
Proof.
  intros Hw Hn H2. unfold row_gain.
  rewrite (map_ext _ (fun e => (if N.eqb (pf (fst e)) (pf v) then -1 else 1) * snd e))
    by (intros e; destruct (N.eqb _ _); lia).
  rewrite (row_sum_wt (fun u => if N.eqb (pf u) (pf v) then -1 else 1) n) by (apply rowof_wf; exact Hw).
  unfold gain. apply sumn_ext. intros u Hu. unfold gterm. fold (wt g v u).
  destruct (Nat.eqb_spec u v) as [->|Hne].
  - rewrite N.eqb_refl, wt_self_zero by assumption. lia.
  - destruct (N.eqb_spec (pf u) (pf v)) as [E|E]; [lia|].
    destruct (N.eqb_spec (pf u) (1 - pf v)%N) as [E2|E2]; [lia|].
    pose proof (H2 u). pose proof (H2 v). lia.
Qed.

(* moving one vertex of a partition list *)
Theorem edge_cut_set g p x b : wf_graph g (length p) -> symmetric g ->
  (x < length p)%nat -> pfun p x <> b ->
  edge_cut g (set_nth p x b) = edge_cut g p - gain (wt g) (length p) (pfun p) x b.
Proof.
  intros Hw Hs Hx Hb. unfold edge_cut.
  rewrite (edge_cut_f_ext g (length p) _ (upd (pfun p) x b) Hw)
    by (intros v _; apply pfun_set_nth; exact Hx).
  rewrite !(edge_cut_f_cut g (length p)) by assumption.
  apply cut_move; auto.
Qed.

(* FM's move: flip a vertex of a two-way partition; the cut drops by the row gain *)
Theorem edge_cut_flip g p x : wf_graph g (length p) -> symmetric g -> no_self_loop g ->
  Forall (fun i => (i <= 1)%N) p -> (x < length p)%nat ->
  edge_cut g (set_nth p x (1 - pfun p x)%N) = edge_cut g p - row_gain (pfun p) x (rowof g x).
Proof.
  intros Hw Hs Hn H2 Hx.
  assert (P2 : forall u, (pfun p u <= 1)%N).
  { intros u. unfold pfun. destruct (Nat.lt_ge_cases u (length p)) as [L|L].
    - rewrite Forall_forall in H2. apply H2. apply nth_In. exact L.
    - rewrite nth_overflow by lia. lia. }
  rewrite edge_cut_set; try assumption.
  - rewrite (row_gain_gain g (length p)) by assumption. reflexivity.
  - pose proof (P2 x). lia.
Qed.

(* ---- a symmetry test that only visits the stored entries (for graphs with thousands of
   vertices, where [symmetricb] -- all pairs -- is not affordable) ---- *)
Definition symmetricb_fast (g : graph) : bool :=
  forallb (fun vr => forallb (fun e => wt g (fst vr) (fst e) =? wt g (fst e) (fst vr)) (snd vr))
          (combine (seq 0 (length g)) g).

Lemma wt_row_no_entry r u : (forall e, In e r -> fst e <> u) -> wt_row r u = 0.
Proof.
  unfold wt_row. induction r as [|e t IH]; intros H; [reflexivity|].
  cbn [map]. rewrite sumZ_cons, IH by (intros e' He'; apply H; right; exact He').
  destruct (Nat.eqb_spec (fst e) u) as [E|E]; [exfalso; apply (H e); [left; reflexivity|exact E]|reflexivity].
Qed.

Lemma symmetricb_fast_entry g v e : symmetricb_fast g = true -> (v < length g)%nat -> In e (rowof g v) ->
  wt g v (fst e) = wt g (fst e) v.
Proof.
  intros H Lv He. unfold symmetricb_fast in H. rewrite forallb_forall in H.
  assert (Hin : In (v, nth v g []) (combine (seq 0 (length g)) g)).
  { replace (v, nth v g []) with (nth v (combine (seq 0 (length g)) g) (0%nat, [])).
    - apply nth_In. rewrite combine_length, seq_length. lia.
    - rewrite combine_nth by (rewrite seq_length; reflexivity). rewrite seq_nth by lia. reflexivity. }
  specialize (H _ Hin). cbn [fst snd] in H. rewrite forallb_forall in H. apply Z.eqb_eq. apply H. exact He.
Qed.

Lemma symmetricb_fast_ok g : symmetricb_fast g = true -> symmetric g.
Proof.
  intros H u v.
  assert (Half : forall a b, (exists e, In e (rowof g a) /\ fst e = b) -> wt g a b = wt g b a).
  { intros a b [e [He Eb]]. destruct (Nat.lt_ge_cases a (length g)) as [L|L].
    - rewrite <- Eb. apply symmetricb_fast_entry; assumption.
    - unfold rowof in He. rewrite nth_overflow in He by lia. destruct He. }
  assert (Dec : forall a b, (exists e, In e (rowof g a) /\ fst e = b) \/ (forall e, In e (rowof g a) -> fst e <> b)).
  { intros a b. induction (rowof g a) as [|e t IH]; [right; intros e []|].
    destruct (Nat.eq_dec (fst e) b) as [E|E]; [left; exists e; split; [left; reflexivity|exact E]|].
    destruct IH as [[e' [He' E']]|IH]; [left; exists e'; split; [right; exact He'|exact E']|].
    right. intros e' [<-|He']; [exact E|apply IH; exact He']. }
  destruct (Dec u v) as [Huv|Nuv]; [apply Half; exact Huv|].
  destruct (Dec v u) as [Hvu|Nvu]; [symmetry; apply Half; exact Hvu|].
  unfold wt. rewrite (wt_row_no_entry _ _ Nuv), (wt_row_no_entry _ _ Nvu). reflexivity.
Qed.

(* Weighted graphs as adjacency rows (the view coupe's Topology trait gives of
   a sparse matrix): vertex v's row is the list of (neighbour, edge weight)
   entries in storage order.  Used by the C16 metrics model.  Self-contained
   (does not depend on Lib/Graph.v).

   Vocabulary: well-formedness, sortedness of the rows, the weight function
   of a pair of vertices, symmetry, finite sums over index ranges; with their
   boolean versions for the run glue, and the basic lemmas. *)
From Coupe Require Import Lib.Prelude.
From Coq Require Import Sorting.Sorted.
Open Scope Z_scope.

Notation row := (list (nat * Z)) (only parsing).
Notation graph := (list (list (nat * Z))) (only parsing).

Definition row_of (g : graph) (v : nat) : row := nth v g [].

(* every neighbour index is a vertex *)
Definition wf_graph (g : graph) : Prop :=
  Forall (Forall (fun e : nat * Z => (fst e < length g)%nat)) g.
Definition wf_graphb (g : graph) : bool :=
  forallb (forallb (fun e : nat * Z => Nat.ltb (fst e) (length g))) g.

(* rows sorted by neighbour index (non-strictly: what take_while needs);
   sprs demands strictly increasing indices, which is stronger *)
Definition rows_sorted (g : graph) : Prop :=
  Forall (fun r : row => StronglySorted le (map fst r)) g.
Definition rows_strictly_sorted (g : graph) : Prop :=
  Forall (fun r : row => StronglySorted lt (map fst r)) g.

Fixpoint sortedb (strict : bool) (l : list nat) : bool :=
  match l with
  | [] => true
  | x :: t =>
    match t with
    | [] => true
    | y :: _ => (if strict then Nat.ltb x y else Nat.leb x y) && sortedb strict t
    end
  end.
Definition rows_sortedb (strict : bool) (g : graph) : bool :=
  forallb (fun r : row => sortedb strict (map fst r)) g.

(* total weight of the entries (u -> v) *)
Definition row_weight (r : row) (v : nat) : Z :=
  sumZ (map snd (filter (fun e : nat * Z => Nat.eqb (fst e) v) r)).
Definition weight (g : graph) (u v : nat) : Z := row_weight (row_of g u) v.

Definition symmetric (g : graph) : Prop := forall u v, weight g u v = weight g v u.
Definition symmetricb (g : graph) : bool :=
  let n := length g in
  forallb (fun u => forallb (fun v => weight g u v =? weight g v u) (seq 0 n)) (seq 0 n).

(* sum of f over the naturals lo, lo+1, ..., lo+len-1 *)
Definition sum_range (lo len : nat) (f : nat -> Z) : Z := sumZ (map f (seq lo len)).

(* ---------------------------------------------------------------- lemmas *)

Lemma sumZ_cons x l : sumZ (x :: l) = x + sumZ l.
Proof. reflexivity. Qed.

Lemma sum_range_S lo len f : sum_range lo (S len) f = sum_range lo len f + f (lo + len)%nat.
Proof.
  unfold sum_range. rewrite seq_S, map_app, sumZ_app. cbn [map sumZ fold_right]. lia.
Qed.

Lemma sum_range_0 lo f : sum_range lo 0 f = 0.
Proof. reflexivity. Qed.

Lemma sum_range_ext lo len f g :
  (forall i, (lo <= i < lo + len)%nat -> f i = g i) -> sum_range lo len f = sum_range lo len g.
Proof.
  intros H. unfold sum_range. f_equal. apply map_ext_in. intros i Hi. apply in_seq in Hi. apply H. lia.
Qed.

Lemma sum_range_add lo len f g :
  sum_range lo len (fun i => f i + g i) = sum_range lo len f + sum_range lo len g.
Proof.
  induction len as [|len IH]; [reflexivity|]. rewrite !sum_range_S, IH. lia.
Qed.

Lemma sum_range_zero lo len : sum_range lo len (fun _ => 0) = 0.
Proof. induction len as [|len IH]; [reflexivity|]. rewrite sum_range_S, IH. lia. Qed.

Lemma sum_range_mul_l lo len c f :
  sum_range lo len (fun i => c * f i) = c * sum_range lo len f.
Proof. induction len as [|len IH]; [cbn; lia|]. rewrite !sum_range_S, IH. lia. Qed.

(* the indicator of one index sums to the indicator of its membership *)
Lemma sum_range_indicator len u c :
  sum_range 0 len (fun i => if Nat.eqb i u then c else 0) = if Nat.ltb u len then c else 0.
Proof.
  induction len as [|len IH]; [reflexivity|].
  rewrite sum_range_S, IH. cbn [Nat.add].
  destruct (Nat.eqb_spec len u) as [->|Hne].
  - destruct (Nat.ltb_spec u u); [lia|]. destruct (Nat.ltb_spec u (S u)); lia.
  - destruct (Nat.ltb_spec u len), (Nat.ltb_spec u (S len)); lia.
Qed.

(* triangular exchange: sum over v, then u < v  =  sum over u, then v > u *)
Lemma sum_triangle_swap n (F : nat -> nat -> Z) :
  sum_range 0 n (fun v => sum_range 0 v (fun u => F u v))
  = sum_range 0 n (fun u => sum_range (S u) (n - S u) (fun v => F u v)).
Proof.
  induction n as [|n IH]; [reflexivity|].
  rewrite !sum_range_S, IH. cbn [Nat.add].
  replace (S n - S n)%nat with 0%nat by lia. rewrite sum_range_0.
  (* right: each inner range grows by the term v = n *)
  assert (E : sum_range 0 n (fun u => sum_range (S u) (S n - S u) (fun v => F u v))
            = sum_range 0 n (fun u => sum_range (S u) (n - S u) (fun v => F u v) + F u n)).
  { apply sum_range_ext. intros u Hu. replace (S n - S u)%nat with (S (n - S u)) by lia.
    rewrite sum_range_S. replace (S u + (n - S u))%nat with n by lia. reflexivity. }
  rewrite E, sum_range_add. lia.
Qed.

Lemma row_weight_nil v : row_weight [] v = 0.
Proof. reflexivity. Qed.

Lemma row_weight_cons u x r v :
  row_weight ((u, x) :: r) v = (if Nat.eqb u v then x else 0) + row_weight r v.
Proof.
  unfold row_weight, sumZ. cbn [filter fst]. destruct (Nat.eqb u v); cbn [map snd fold_right]; lia.
Qed.

Lemma row_of_nth g v r : nth_opt g v = Some r -> row_of g v = r.
Proof.
  unfold row_of. revert v. induction g as [|x t IH]; intros [|v]; cbn; intros H; try discriminate.
  - congruence.
  - apply IH. exact H.
Qed.

Lemma sortedb_sound strict l : sortedb strict l = true -> StronglySorted le l.
Proof.
  intros H. apply Sorted_StronglySorted; [intros a b c; lia|].
  induction l as [|x t IH]; [constructor|].
  cbn [sortedb] in H. destruct t as [|y t'].
  - constructor; constructor.
  - apply andb_true_iff in H as [H1 H2]. constructor; [apply IH; exact H2|].
    constructor. destruct strict.
    + apply Nat.ltb_lt in H1. lia.
    + apply Nat.leb_le in H1. lia.
Qed.

Lemma rows_sortedb_sound strict g : rows_sortedb strict g = true -> rows_sorted g.
Proof.
  unfold rows_sortedb, rows_sorted. rewrite forallb_forall, Forall_forall.
  intros H r Hr. eapply sortedb_sound. apply H. exact Hr.
Qed.

Lemma wf_graphb_sound g : wf_graphb g = true -> wf_graph g.
Proof.
  unfold wf_graphb, wf_graph. rewrite forallb_forall, Forall_forall. intros H r Hr.
  specialize (H r Hr). rewrite forallb_forall in H. rewrite Forall_forall. intros e He.
  apply Nat.ltb_lt. apply H. exact He.
Qed.

Lemma symmetricb_sound g : wf_graph g -> symmetricb g = true -> symmetric g.
Proof.
  intros Hwf H u v. unfold symmetricb in H. rewrite forallb_forall in H.
  assert (Hout : forall a b, (length g <= a)%nat -> weight g a b = 0).
  { intros a b Ha. unfold weight, row_of. rewrite nth_overflow by lia. reflexivity. }
  assert (Hout2 : forall a b, (length g <= b)%nat -> weight g a b = 0).
  { intros a b Hb. unfold weight, row_weight.
    assert (Hr : Forall (fun e : nat * Z => (fst e < length g)%nat) (row_of g a)).
    { unfold row_of. destruct (Nat.lt_ge_cases a (length g)) as [Ha|Ha].
      - unfold wf_graph in Hwf. rewrite Forall_forall in Hwf. apply Hwf. apply nth_In. exact Ha.
      - rewrite nth_overflow by lia. constructor. }
    induction Hr as [|e r He Hr IH]; [reflexivity|].
    cbn [filter]. destruct (Nat.eqb_spec (fst e) b); [lia|]. exact IH. }
  destruct (Nat.lt_ge_cases u (length g)) as [Hu|Hu];
    [|rewrite Hout by exact Hu; rewrite Hout2 by exact Hu; reflexivity].
  destruct (Nat.lt_ge_cases v (length g)) as [Hv|Hv];
    [|rewrite Hout2 by exact Hv; rewrite Hout by exact Hv; reflexivity].
  specialize (H u). rewrite forallb_forall in H.
  apply Z.eqb_eq. apply H; apply in_seq; lia.
Qed.

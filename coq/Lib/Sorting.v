(* `slice::binary_search_by` as the standard library executes it.

   coupe calls `binary_search(_by)` on vectors that need not be sorted
   (HilbertCurve: the split positions returned by `weighted_quantiles`), where
   the documented contract says nothing; so the model is the library's actual
   loop, transcribed from

     library/core/src/slice/mod.rs, `pub fn binary_search_by` (lines 2971-3023
     of the rust-src component of rustc 1.97.0-nightly (ad3a598ca 2026-05-03);
     the stable toolchain the harness is built with, rustc 1.95.0, ships no
     rust-src; the loop has had this shape since Rust 1.82):

       let mut size = self.len();
       if size == 0 { return Err(0); }
       let mut base = 0usize;
       while size > 1 {
           let half = size / 2;
           let mid = base + half;
           let cmp = f(unsafe { self.get_unchecked(mid) });
           base = hint::select_unpredictable(cmp == Greater, base, mid);
           size -= half;
       }
       let cmp = f(unsafe { self.get_unchecked(base) });
       if cmp == Equal { Ok(base) }
       else { let result = base + (cmp == Less) as usize; Err(result) }

   The tie to the function that is really linked is the correspondence stream
   "bsearch" of harness/src/bin/c09.rs (random UNSORTED arrays and keys,
   `slice.binary_search(&k)` and `binary_search_by` with a never-Equal
   comparator, against this model).

   Executable definitions only; the lemmas are in Proofs/SortingProofs.v. *)
From Coupe Require Import Lib.Prelude.

(* [cmp x] = `f(&x)`: the ordering of the ELEMENT relative to the target
   ([Lt] = Less: the element is smaller than what is searched). *)

(* the `while size > 1` loop; returns the final `base`.
   Panic 20 stands for the `get_unchecked` out of range (never happens:
   SortingProofs.bs_loop_ok). *)
Fixpoint bs_loop {A} (cmp : A -> comparison) (a : list A) (fuel base size : nat) : res nat :=
  if Nat.leb size 1 then Ok base
  else
    match fuel with
    | O => OutOfFuel
    | S f =>
      let half := Nat.div2 size in
      let mid := base + half in
      match nth_opt a mid with
      | None => Panic 20
      | Some x =>
        let base' := match cmp x with Gt => base | _ => mid end in
        bs_loop cmp a f base' (size - half)
      end
    end.

(* Result<usize, usize> as (is_ok, index) *)
Definition bsearch_by {A} (cmp : A -> comparison) (a : list A) : res (bool * nat) :=
  match a with
  | [] => Ok (false, O)
  | _ =>
    match bs_loop cmp a (length a) O (length a) with
    | Ok base =>
      match nth_opt a base with
      | None => Panic 20
      | Some x =>
        match cmp x with
        | Eq => Ok (true, base)
        | Lt => Ok (false, S base)
        | Gt => Ok (false, base)
        end
      end
    | Err e => Err e
    | Panic s => Panic s
    | OutOfFuel => OutOfFuel
    end
  end.

(* `let (Ok(i) | Err(i)) = ...` *)
Definition bsearch_by_idx {A} (cmp : A -> comparison) (a : list A) : res nat :=
  match bsearch_by cmp a with
  | Ok (_, i) => Ok i
  | Err e => Err e
  | Panic s => Panic s
  | OutOfFuel => OutOfFuel
  end.

(* `a.binary_search(&k)` on u64: `binary_search_by(|p| p.cmp(k))` *)
Definition bsearch (a : list N) (k : N) : res (bool * nat) :=
  bsearch_by (fun x => N.compare x k) a.
Definition bsearch_idx (a : list N) (k : N) : res nat :=
  bsearch_by_idx (fun x => N.compare x k) a.

(* coupe's `crate::partial_cmp(a, b)`: Less if a < b, Greater otherwise
   (never Equal); `binary_search_by(|x| partial_cmp(x, k))` *)
Definition partial_cmp_N (x k : N) : comparison := if (x <? k)%N then Lt else Gt.
Definition bsearch_pc_idx (a : list N) (k : N) : res nat :=
  bsearch_by_idx (fun x => partial_cmp_N x k) a.

(* A canonical instance of `sort_unstable_by_key` for executing models whose
   sort is an oracle: stable insertion sort of indices by an N-valued key. *)
Fixpoint insert_by_key (key : nat -> N) (x : nat) (l : list nat) : list nat :=
  match l with
  | [] => [x]
  | y :: t => if (key y <? key x)%N then y :: insert_by_key key x t else x :: l
  end.
Definition sort_by_key (key : nat -> N) (l : list nat) : list nat :=
  fold_right (insert_by_key key) [] l.

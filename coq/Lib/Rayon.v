(* Parallel skeletons over an explicit split tree (DESIGN §3, "Rayon").

   rayon's `par_iter().fold(id, op).reduce(id', red)`, `.sum()`, `.min_by()`,
   `.map().collect()` and friends call the user closures on the pieces of SOME
   recursive splitting of the index range, decided at run time by work
   stealing; the pieces are recombined in index order.  A schedule is modelled
   as a binary tree of split positions; an algorithm that takes the tree as an
   argument and whose result does not depend on it is schedule independent
   (property C06).  What is assumed about rayon here (trusted base): fold /
   reduce / collect preserve the index order and call the closures exactly on
   the pieces of such a tree. *)
From Coupe Require Import Lib.Prelude.
From Coq Require Import Permutation.

Inductive sched :=
| Leaf
| Node (k : nat) (l r : sched).     (* split the current range at offset k *)

Section FoldReduce.
  Context {A B : Type}.
  Variable fold : list A -> B.          (* the sequential fold of one piece *)
  Variable reduce : B -> B -> B.

  Fixpoint par_fold (t : sched) (xs : list A) : B :=
    match t with
    | Leaf => fold xs
    | Node k l r => reduce (par_fold l (firstn k xs)) (par_fold r (skipn k xs))
    end.

  (* the fold is a homomorphism from (list, ++) to (B, reduce) *)
  Hypothesis fold_app : forall xs ys, fold (xs ++ ys) = reduce (fold xs) (fold ys).

  Theorem par_fold_indep : forall t xs, par_fold t xs = fold xs.
  Proof.
    induction t as [|k l IHl r IHr]; intros xs; cbn [par_fold]; [reflexivity|].
    rewrite IHl, IHr, <- fold_app, firstn_skipn. reflexivity.
  Qed.

  Corollary par_fold_sched_indep : forall t1 t2 xs, par_fold t1 xs = par_fold t2 xs.
  Proof. intros. now rewrite !par_fold_indep. Qed.
End FoldReduce.

(* `fold(|| id, op)` followed by `reduce(|| id, red)` where red is associative
   with unit id and op accumulates one element: the homomorphism condition. *)
Section Monoid.
  Context {A B : Type}.
  Variable id : B.
  Variable inj : A -> B.                 (* contribution of one element *)
  Variable red : B -> B -> B.
  Hypothesis red_assoc : forall a b c, red a (red b c) = red (red a b) c.
  Hypothesis red_id_l : forall a, red id a = a.
  Hypothesis red_id_r : forall a, red a id = a.

  Definition mfold (xs : list A) : B := fold_left (fun acc x => red acc (inj x)) xs id.

  Lemma fold_left_red acc xs :
    fold_left (fun acc x => red acc (inj x)) xs acc = red acc (mfold xs).
  Proof.
    unfold mfold. revert acc. induction xs as [|x xs IH]; intros acc; cbn [fold_left].
    - now rewrite red_id_r.
    - rewrite IH, (IH (red id (inj x))), red_id_l, red_assoc. reflexivity.
  Qed.

  Lemma mfold_app xs ys : mfold (xs ++ ys) = red (mfold xs) (mfold ys).
  Proof. unfold mfold at 1. rewrite fold_left_app. fold (mfold xs). apply fold_left_red. Qed.

  Theorem monoid_fold_sched_indep : forall t1 t2 xs,
    par_fold mfold red t1 xs = par_fold mfold red t2 xs.
  Proof. intros. apply par_fold_sched_indep. exact mfold_app. Qed.
End Monoid.

(* integer sums (`.sum()` on i64, loads, counts): exact, hence schedule independent *)
Theorem par_sumZ_indep : forall t xs, par_fold sumZ Z.add t xs = sumZ xs.
Proof. intros. apply par_fold_indep. intros. apply sumZ_app. Qed.

(* element-wise sum of fixed-length vectors (per-part weight histograms) *)
Fixpoint vadd (a b : list Z) : list Z :=
  match a, b with
  | x :: a', y :: b' => (x + y)%Z :: vadd a' b'
  | [], b => b
  | a, [] => a
  end.

Lemma vadd_assoc a b c : vadd a (vadd b c) = vadd (vadd a b) c.
Proof.
  revert b c; induction a as [|x a IH]; intros [|y b] [|z c]; cbn; auto.
  rewrite IH. f_equal. lia.
Qed.
Lemma vadd_nil_l a : vadd [] a = a.
Proof. reflexivity. Qed.
Lemma vadd_nil_r a : vadd a [] = a.
Proof. destruct a; reflexivity. Qed.

Theorem par_histogram_indep {A} (contrib : A -> list Z) : forall t1 t2 xs,
  par_fold (mfold [] contrib vadd) vadd t1 xs = par_fold (mfold [] contrib vadd) vadd t2 xs.
Proof.
  intros. apply monoid_fold_sched_indep; [apply vadd_assoc | apply vadd_nil_l | apply vadd_nil_r].
Qed.

(* min / max over a total order given by a comparison into Z (bounding boxes on
   coordinates with a rank; `min_by(partial_cmp)`): associative, commutative,
   idempotent, so the result is schedule independent whenever the piece results
   are combined by the same operation. *)
Definition omin (a b : option Z) : option Z :=
  match a, b with
  | Some x, Some y => Some (Z.min x y)
  | Some x, None => Some x
  | None, b => b
  end.
Lemma omin_assoc a b c : omin a (omin b c) = omin (omin a b) c.
Proof. destruct a, b, c; cbn; auto. f_equal. lia. Qed.

Theorem par_min_indep : forall t1 t2 (xs : list Z),
  par_fold (mfold None Some omin) omin t1 xs = par_fold (mfold None Some omin) omin t2 xs.
Proof.
  intros. apply monoid_fold_sched_indep.
  - apply omin_assoc.
  - reflexivity.
  - intros [x|]; reflexivity.
Qed.

(* ---------- unordered writes to pairwise distinct indices commute ---------- *)
(* z-curve / multi-jagged / dual graph: each parallel task writes `id` through
   a raw pointer at indices no other task touches. *)
Section Writes.
  Context {V : Type}.

  Definition apply_writes (ws : list (nat * V)) (a : list V) : list V :=
    fold_left (fun a w => set_nth a (fst w) (snd w)) ws a.

  Lemma set_nth_comm (a : list V) i j x y :
    i <> j -> set_nth (set_nth a i x) j y = set_nth (set_nth a j y) i x.
  Proof.
    revert i j; induction a as [|v a IH]; intros [|i] [|j] H; cbn; auto; try congruence.
    f_equal. apply IH. congruence.
  Qed.

  Theorem writes_perm_indep : forall ws1 ws2 a,
    Permutation ws1 ws2 -> NoDup (map fst ws1) -> apply_writes ws1 a = apply_writes ws2 a.
  Proof.
    intros ws1 ws2 a P. revert a.
    induction P as [|w l l' P IH|w1 w2 l|l l' l'' P1 IH1 P2 IH2]; intros a ND; cbn.
    - reflexivity.
    - apply IH. now inversion ND.
    - unfold apply_writes; cbn [fold_left]. rewrite set_nth_comm; [reflexivity|].
      inversion ND as [|? ? Hn _]; subst. intro E. apply Hn. left. symmetry. exact E.
    - rewrite IH1 by exact ND. apply IH2.
      eapply Permutation_NoDup; [apply Permutation_map; exact P1|exact ND].
  Qed.
End Writes.

(* non-vacuity *)
Example par_sum_example :
  par_fold sumZ Z.add (Node 2 (Node 1 Leaf Leaf) Leaf) [1;2;3;4;5]%Z = 15%Z
  /\ par_fold sumZ Z.add (Node 4 Leaf (Node 0 Leaf Leaf)) [1;2;3;4;5]%Z = 15%Z.
Proof. split; reflexivity. Qed.

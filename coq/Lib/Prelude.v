(* Common result type of the models: every Rust operation that can fail is an
   explicit constructor (DESIGN §3). *)
From Coq Require Export ZArith NArith List Bool Lia Arith.
Export ListNotations.
Global Arguments N.add : simpl never.
Global Arguments N.sub : simpl never.
Global Arguments N.eqb : simpl never.
Global Arguments N.ltb : simpl never.
Global Arguments N.leb : simpl never.
Global Arguments Nat.ltb : simpl never.
Global Arguments Nat.leb : simpl never.

Inductive error :=
| NotFound
| InputLenMismatch (expected actual : nat)
| NegativeValues
| BiPartitioningOnly
| InvalidOrder (max actual : N).

(* A panic site is identified by a small number; the harness maps the panic
   message / location of the implementation to the same code. *)
Inductive res (A : Type) :=
| Ok (a : A)
| Err (e : error)
| Panic (site : N)
| OutOfFuel.
Arguments Ok {A} a.
Arguments Err {A} e.
Arguments Panic {A} site.
Arguments OutOfFuel {A}.

Definition bind {A B} (r : res A) (f : A -> res B) : res B :=
  match r with
  | Ok a => f a
  | Err e => Err e
  | Panic s => Panic s
  | OutOfFuel => OutOfFuel
  end.

(* In-range list access: [None] stands for Rust's out-of-bounds panic. *)
Fixpoint nth_opt {A} (l : list A) (n : nat) : option A :=
  match l, n with
  | [], _ => None
  | x :: _, O => Some x
  | _ :: t, S k => nth_opt t k
  end.

Fixpoint set_nth {A} (l : list A) (n : nat) (v : A) : list A :=
  match l, n with
  | [], _ => []
  | _ :: t, O => v :: t
  | x :: t, S k => x :: set_nth t k v
  end.

Lemma set_nth_length {A} (l : list A) n v : length (set_nth l n v) = length l.
Proof. revert n; induction l as [|x t IH]; intros [|n]; cbn; auto. Qed.

Lemma nth_opt_Some {A} (l : list A) n x : nth_opt l n = Some x -> (n < length l)%nat.
Proof.
  revert n; induction l as [|y t IH]; intros [|n]; cbn; intros H; try discriminate; try lia.
  apply IH in H. lia.
Qed.

Lemma nth_opt_lt {A} (l : list A) n : (n < length l)%nat -> exists x, nth_opt l n = Some x.
Proof.
  revert n; induction l as [|y t IH]; intros [|n]; cbn; intros H; try lia; eauto.
  apply IH. lia.
Qed.

Lemma nth_opt_set_nth_same {A} (l : list A) n v :
  (n < length l)%nat -> nth_opt (set_nth l n v) n = Some v.
Proof.
  revert n; induction l as [|y t IH]; intros [|n]; cbn; intros H; try lia; auto.
  apply IH. lia.
Qed.

Lemma nth_opt_set_nth_other {A} (l : list A) n m v :
  n <> m -> nth_opt (set_nth l n v) m = nth_opt l m.
Proof.
  revert n m; induction l as [|y t IH]; intros [|n] [|m]; cbn; intros H; auto; try congruence.
Qed.

Lemma nth_opt_In {A} (l : list A) n x : nth_opt l n = Some x -> In x l.
Proof.
  revert n; induction l as [|y t IH]; intros [|n]; cbn; intros H; try discriminate.
  - injection H as ->. left; reflexivity.
  - right. eapply IH. exact H.
Qed.

Definition sumZ (l : list Z) : Z := fold_right Z.add 0%Z l.

Lemma sumZ_app a b : sumZ (a ++ b) = (sumZ a + sumZ b)%Z.
Proof. unfold sumZ. induction a as [|x t IH]; cbn [app fold_right]; [reflexivity|rewrite IH; lia]. Qed.

(* Evaluation of C20 correspondence cases.  For every call made by the harness
   (harness/src/bin/c20.rs) against the real entry point:
     corr_ok : the interpretation of the GENERATED guard list on the call's
               shape agrees with what the implementation did (error variant and
               fields, early Ok, the caller's array afterwards);
     prop_ok : the property itself, judged from the input shape and the
               implementation's result alone by [check_C20] (independent of the
               guard lists): when a clause applies, anything but a promised
               error with the array untouched is a rejection.
   Depends on the model and the generated lists only (not on the proofs). *)
From Coupe Require Import Lib.Prelude Lib.Report Model.Errors Gen.GuardsGen.

Record case20 := mk20 {
  c_alg : N;               (* numbering of Model/Errors.v [inputs_of] *)
  c_ws : list wsign;       (* sign of every weight *)
  c_points : nat;          (* points.len() *)
  c_adj : nat;             (* adjacency.len() *)
  c_pc : N;                (* part_count field *)
  c_order : N;             (* order field *)
  c_p0 : list N;           (* the caller's array before the call *)
  c_impl : impl_res;       (* what the call returned (IOk carries the array afterwards) *)
  c_after : list N         (* the caller's array after the call (also after an error or a panic) *)
}.

Definition guards_of (alg : N) : list guard :=
  match alg with
  | 0 => rcb_guards | 1 => rib_guards | 2 => greedy_guards | 3 => kk_guards | 4 => ckk_guards
  | 5 => vnbest_guards | 6 => vnfirst_guards | 7 => fm_guards | 8 => arcswap_guards
  | 9 => hilbert2d_guards | 10 => hilbert3d_guards
  | _ => []
  end%N.

Definition eval20 (c : case20) : verdict :=
  let alg := c_alg c in
  let sh := mk_shape (c_ws c) (c_points c) (c_adj c) (c_pc c) (c_order c) in
  let p0 := c_p0 c in
  let '(o, pm) := run_guards (guards_of alg) sh p0 in
  let same := ids_eqb (c_after c) pm in
  let corr :=
    match o, c_impl c with
    | OErr e, IErr code a b => err_matches e code a b && same
    | OEarlyOk, IOk _ => same
    | OPanic _, IPanic => same
    (* the guards passed: what the algorithm proper does is not C20's business *)
    | OProceed, IOk _ => true
    | OProceed, IErr 0 _ _ => true
    | OProceed, IPanic | OProceed, IHang => true
    | _, _ => false
    end in
  (* VnBest / VnFirst on an array holding usize::MAX: outside the usage contract *)
  let outside := ((alg =? 5) || (alg =? 6))%N && existsb (N.eqb usize_max) p0 in
  let obs := match c_impl c with
             | IOk _ => ObsOk
             | IErr code a b => ObsErr code a b
             | IPanic => ObsPanic
             | IHang => ObsHang
             end in
  (* the property, from the input shape and the observation alone (Model/Errors.v [check_C20],
     proved equivalent to [C20_holds]); the generated guard list plays no part in it *)
  let prop := if outside then true else check_C20 alg sh p0 obs (c_after c) in
  let cls :=
    match o, c_impl c with
    | OErr (InputLenMismatch _ _), _ => 0
    | OErr BiPartitioningOnly, _ => 1
    | OErr NegativeValues, _ => 2
    | OErr (InvalidOrder _ _), _ => 3
    | OErr NotFound, _ => 9
    | OEarlyOk, _ => if ids_eqb pm p0 then 4 else 5
    | OProceed, IOk _ => 6
    | OProceed, IErr _ _ _ => 6
    | OProceed, _ => 7
    | OPanic _, _ => 8
    end%N in
  {| corr_ok := corr; prop_ok := prop; cls := cls |}.

(* A LARGE call (thousands of elements), as the harness writes it: weight signs and the caller's
   array run-length encoded, lengths as binary numbers, and -- instead of the array after the
   call -- the positions at which it differs from the array before, with the new values (the one
   thing the harness computes is that comparison).  [big20] rebuilds the plain case; the verdict
   is [eval20] of it, the same judgement as for a small call. *)
Inductive obs_kind := KOk | KErr (code a b : N) | KPanic | KHang.

Definition big20 (alg : N) (ws : list (wsign * N)) (points adj pc order : N) (p0 : list (N * N))
                 (k : obs_kind) (changed : list (N * N)) : case20 :=
  let p := of_runs p0 in
  let after := patch_ids p 0 changed in
  mk20 alg (of_runs ws) (N.to_nat points) (N.to_nat adj) pc order p
       (match k with
        | KOk => IOk after
        | KErr code a b => IErr code a b
        | KPanic => IPanic
        | KHang => IHang
        end)
       after.

Definition run20 (cs : list case20) := report (map eval20 cs).

(* Evaluation of C16 correspondence cases: model vs the three implementations
   (sprs specialisation, the trait's default methods through a wrapper type,
   Grid) and the imbalance functions; and the property check: every value the
   implementation returned equals the DEFINITION (Model/Metrics.v, section
   "specification vocabulary"), computed independently of the code model.
   Depends on the model only (not on the proofs). *)
From Coq Require Import Floats.SpecFloat QArith Qabs.
From Coupe Require Import Lib.Prelude Lib.SFloat Lib.Report Lib.Csr Model.Metrics.
Open Scope Z_scope.

(* one observed value: [OVal] the value; [OPanic]; [OHang]; [OBad]: an f64
   result that is not an integer below 2^53 where an integer is expected;
   [OAbsent]: this implementation does not apply to the case (e.g. the sprs
   path on an adjacency list that is not a valid sparse matrix) *)
Inductive obs (A : Type) := OVal (a : A) | OPanic | OHang | OBad | OAbsent.
Arguments OVal {A} a.
Arguments OPanic {A}.
Arguments OHang {A}.
Arguments OBad {A}.
Arguments OAbsent {A}.

Definition obs_corr {A B} (eqb : A -> B -> bool) (m : res B) (o : obs A) : bool :=
  match o, m with
  | OAbsent, _ => true
  | OVal a, Ok b => eqb a b
  | OPanic, Panic _ => true
  | _, _ => false
  end.

(* inside the contract: the observation is the value [d] given by the definition *)
Definition obs_is {A B} (eqb : A -> B -> bool) (d : B) (o : obs A) : bool :=
  match o with
  | OAbsent => true
  | OVal a => eqb a d
  | _ => false
  end.

Definition zs_eqb := list_eqb Z.eqb.
Definition nat_rows_eqb := list_eqb (list_eqb Nat.eqb).

(* observations of a graph case: i64 results, then the f64 instantiation's
   results converted back to integers by the harness *)
Record graph_obs := mkGO {
  go_csr_cut : obs Z; go_gen_cut : obs Z; go_csr_lam : obs Z; go_gen_lam : obs Z;
  go_csr_cut_f : obs Z; go_gen_cut_f : obs Z; go_csr_lam_f : obs Z; go_gen_lam_f : obs Z }.

Record grid_obs := mkGR {
  gr_rows : obs (list (list nat));       (* Topology::neighbors(&grid, v) for every v *)
  gr_cut : obs Z; gr_lam : obs Z;        (* Grid (default methods) *)
  gr_csr_cut : obs Z; gr_csr_lam : obs Z;(* sprs view of the harness-built lattice *)
  gr_gen_cut : obs Z; gr_gen_lam : obs Z;(* wrapper type over the same matrix *)
  gr_cut_f : obs Z }.                    (* Grid with E = f64 *)

Record load_obs := mkLO {
  lo_loads : obs (list Z); lo_loads_f : obs (list Z);
  lo_imb : obs N; lo_imb_f : obs N;      (* f64 bit patterns *)
  lo_max : obs Z; lo_max_f : obs Z;
  lo_target : obs Z }.

(* Compact partitions for the large cases (a literal list of unary part ids in the
   thousands would make the case file and its parsing enormous):
     PList l                 the list itself
     PStride c a b k len     p[i] = (c + a * (i / b)) mod k      (c < k, 0 < a <= k, 0 < b)
     PRuns [(q, n); ...]     q repeated n times, ...
   [expand] builds the unary ids incrementally so that they share structure. *)
Inductive pspec :=
| PList (l : list nat)
| PStride (c a b k len : N)
| PRuns (runs : list (N * N)).

Fixpoint stride_list (len cur j a b k : nat) : list nat :=
  match len with
  | O => []
  | S l =>
    cur :: match j with
           | S (S j') => stride_list l cur (S j') a b k
           | _ => let x := (a + cur)%nat in
                  stride_list l (if Nat.leb k x then (x - k)%nat else x) b a b k
           end
  end.

Definition expand (s : pspec) : list nat :=
  match s with
  | PList l => l
  | PStride c a b k len =>
    stride_list (N.to_nat len) (N.to_nat c) (N.to_nat b) (N.to_nat a) (N.to_nat b) (N.to_nat k)
  | PRuns runs => flat_map (fun qc : N * N => repeat (N.to_nat (fst qc)) (N.to_nat (snd qc))) runs
  end.

Example expand_stride :
  expand (PStride 2 3 2 5 11) = map (fun i => (2 + 3 * (i / 2)) mod 5)%nat (seq 0 11)
  /\ expand (PStride 0 1 1 4 9) = map (fun i => i mod 4)%nat (seq 0 9)
  /\ expand (PRuns [(3, 2); (0, 1); (7, 3)]%N) = [3; 3; 0; 7; 7; 7]%nat.
Proof. vm_compute. repeat split; reflexivity. Qed.

Record biggrid_obs := mkBG {
  bg_rows : obs (list (list Z));         (* Topology::neighbors(&grid, v) for every v, as offsets u - v *)
  bg_cut : obs Z; bg_lam : obs Z;
  bg_csr_cut : obs Z; bg_csr_lam : obs Z;
  bg_gen_cut : obs Z; bg_gen_lam : obs Z;
  bg_cut_f : obs Z }.

Inductive case16 :=
| CGraph (g : graph) (p : list nat) (vw : list Z) (o : graph_obs)
| CGrid (dims : list nat) (lat : graph) (p : list nat) (vw : list Z) (o : grid_obs)
| CLoad (depth : nat) (k : nat) (p : list nat) (ws : list Z) (targets : list Z) (o : load_obs)
(* LARGE cases (thousands of vertices, around rayon / block boundaries).  Rows are
   sent as (signed offset from the row's own index, weight) so that the unary
   neighbour indices built in Coq share their representation with [seq]. *)
| CBigGraph (offs : list (list (Z * Z))) (ps : pspec) (vw : list Z) (o : graph_obs)
| CBigGrid (dims : list nat) (offs : list (list (Z * Z))) (ps : pspec) (vw : list Z) (o : biggrid_obs)
(* MANY parts (beyond 1024) for compute_parts_load / imbalance / max_imbalance / imbalance_target *)
| CManyLoad (depth : nat) (k : N) (ps : pspec) (ws : list Z) (targets : list Z) (o : load_obs).

(* a balanced split tree of the given depth (rayon halves the index range) *)
Fixpoint balanced (d n : nat) : split :=
  match d with
  | O => Leaf
  | S d' => Node (n / 2) (balanced d' (n / 2)) (balanced d' (n - n / 2))
  end.

Definition andl (l : list bool) : bool := forallb (fun b => b) l.


Definition bits_eqb (a : N) (x : spec_float) : bool := (a =? f64_to_bits x)%N.

(* exact rational value of a finite float *)
Definition Q_of_float (x : spec_float) : option Q :=
  match x with
  | S754_zero _ => Some 0%Q
  | S754_finite s m e =>
    let mag := if (0 <=? e)%Z then inject_Z (Zpos m * 2 ^ e) else Qmake (Zpos m) (Z.to_pos (2 ^ (- e))) in
    Some (if s then Qopp mag else mag)
  | _ => None
  end.

(* the returned f64 is within 2^-50 * (|d| + 1) of the closed form
   d = max_load * k / total - 1 (total > 0), resp. equals 0 when total = 0 *)
Definition imbalance_close (k : nat) (loads : list Z) (bits : N) : bool :=
  let total := sumZ loads in
  match Q_of_float (f64_of_bits bits), loads with
  | Some v, x :: r =>
    if total =? 0 then Qeq_bool v 0
    else if total <? 0 then true                     (* negative total weight: outside the closed form's domain *)
    else
      let d := (inject_Z (list_max_Z x r) * inject_Z (Z.of_nat k) / inject_Z total - 1)%Q in
      Qle_bool (Qabs (v - d)) ((Qabs d + 1) * Qmake 1 (2 ^ 50))
  | _, _ => false
  end.
Definition obs_close (k : nat) (loads : list Z) (o : obs N) : bool :=
  match o with OAbsent => true | OVal b => imbalance_close k loads b | _ => false end.

(* the matrix the harness built for the lattice is the lattice: right size,
   valid (strictly sorted rows, indices in range), weight 1 exactly on the
   adjacent pairs of positions *)
Definition lattice_graphb (dims : list nat) (lat : graph) : bool :=
  let n := grid_len dims in
  Nat.eqb (length lat) n && wf_graphb lat && rows_sortedb true lat
  && forallb (fun u => forallb (fun v =>
       weight lat u v =? (if adjacent_pos (position_of dims u) (position_of dims v) then 1 else 0))
       (seq 0 n)) (seq 0 n).

(* ---- large cases ---- *)

(* offset rows -> rows.  [k + v] (recursion on the small k) and [v - k] (a
   sub-term of v) keep the unary indices shared with the [seq] spine. *)
Definition rows_of_offsets (offs : list (list (Z * Z))) : graph :=
  map (fun vr : nat * list (Z * Z) =>
         map (fun dw : Z * Z =>
                (if fst dw <? 0 then (fst vr - Z.to_nat (- fst dw))%nat
                 else (Z.to_nat (fst dw) + fst vr)%nat, snd dw)) (snd vr))
      (combine (seq 0 (length offs)) offs).
(* no negative offset reaches below vertex 0 (truncated subtraction would hide it) *)
Definition offsets_ok (offs : list (list (Z * Z))) : bool :=
  forallb (fun vr : nat * list (Z * Z) =>
             forallb (fun dw : Z * Z => (0 <=? fst dw) || Nat.leb (Z.to_nat (- fst dw)) (fst vr)) (snd vr))
          (combine (seq 0 (length offs)) offs).

Definition zrows_eqb := list_eqb (list_eqb Z.eqb).

(* strides 1, s0, s0*s1, ... of the row-major index *)
Fixpoint strides (acc : nat) (dims : list nat) : list nat :=
  match dims with [] => [] | s :: t => acc :: strides (acc * s) t end.
(* per axis (stride, coordinate of v, size) *)
Definition axes_of (dims : list nat) (v : nat) : list (nat * (nat * nat)) :=
  map (fun ss : nat * nat => (fst ss, (((v / fst ss) mod snd ss)%nat, snd ss)))
      (combine (strides 1 dims) dims).
(* GridNeighbors order: axis by axis, -stride when the coordinate is not 0, then
   +stride when it is not the last (the closed form proved in MetricsGridProofs:
   grid_neighbors_2d / _3d) *)
Definition grid_offsets_iter (dims : list nat) (v : nat) : list Z :=
  flat_map (fun a : nat * (nat * nat) =>
              let st := Z.of_nat (fst a) in let c := fst (snd a) in let s := snd (snd a) in
              (if Nat.eqb c 0 then [] else [- st]) ++ (if Nat.ltb (c + 1) s then [st] else []))
           (axes_of dims v).
(* the lattice as a valid sparse matrix: ascending indices *)
Definition grid_offsets_sorted (dims : list nat) (v : nat) : list Z :=
  let ax := axes_of dims v in
  flat_map (fun a : nat * (nat * nat) => if Nat.eqb (fst (snd a)) 0 then [] else [- Z.of_nat (fst a)]) (rev ax)
  ++ flat_map (fun a : nat * (nat * nat) =>
                 if Nat.ltb (fst (snd a) + 1) (snd (snd a)) then [Z.of_nat (fst a)] else []) ax.

(* [fast] (many parts): the literal definition [loads_def] costs k * n comparisons of unary
   ids; the per-part sums are then obtained through the model, which equals [loads_def] for
   EVERY split tree by C16_loads_def (and an id >= k is a Panic by C16_loads_out_of_range). *)
Definition eval_load (fast : bool) (depth k : nat) (p : list nat) (ws targets : list Z) (o : load_obs)
  : verdict :=
    let t := balanced depth (Nat.min (length p) (length ws)) in
    let ml := compute_parts_load t k p ws in
    let mi := imbalance t k p ws in
    let mm := max_imbalance t k p ws in
    let mt := imbalance_target t targets p ws in
    let corr := andl [
      obs_corr zs_eqb ml (lo_loads o); obs_corr zs_eqb ml (lo_loads_f o);
      obs_corr bits_eqb mi (lo_imb o); obs_corr bits_eqb mi (lo_imb_f o);
      obs_corr Z.eqb mm (lo_max o); obs_corr Z.eqb mm (lo_max_f o);
      obs_corr Z.eqb mt (lo_target o)] in
    let in_contract := Nat.ltb 0 k && forallb (fun q => Nat.ltb q k) p && Nat.eqb (length p) (length ws) in
    let prop :=
      if in_contract then
        match (if fast then ml else Ok (loads_def k p ws)) with
        | Ok d =>
          let dm := spread d in
          andl [obs_is zs_eqb d (lo_loads o); obs_is zs_eqb d (lo_loads_f o);
                obs_is Z.eqb dm (lo_max o); obs_is Z.eqb dm (lo_max_f o);
                (* the f64 value: bit-for-bit against SpecFloat is part of [corr] above; the PROPERTY
                   is closeness to the rational closed form (an algebraically equivalent rewrite of
                   the expression would change bits without breaking the property) *)
                obs_close k d (lo_imb o); obs_close k d (lo_imb_f o);
                if Nat.eqb (length targets) k then
                  obs_is Z.eqb (max_excess d targets) (lo_target o)
                else true]
        | _ => false
        end
      else true in
    {| corr_ok := corr; prop_ok := prop;
       cls := if in_contract then (if fast then 12 else 5) else 6 |}.

Definition eval16 (c : case16) : verdict :=
  match c with
  | CGraph g p vw o =>
    let n := length g in
    let mc := edge_cut g p in
    let ms := sprs_edge_cut g p in
    let ml := lambda_cut g p vw in
    let msl := sprs_lambda_cut g p vw in
    let corr := andl [
      obs_corr Z.eqb ms (go_csr_cut o); obs_corr Z.eqb mc (go_gen_cut o);
      obs_corr Z.eqb msl (go_csr_lam o); obs_corr Z.eqb ml (go_gen_lam o);
      obs_corr Z.eqb ms (go_csr_cut_f o); obs_corr Z.eqb mc (go_gen_cut_f o);
      obs_corr Z.eqb msl (go_csr_lam_f o); obs_corr Z.eqb ml (go_gen_lam_f o)] in
    let in_contract := wf_graphb g && Nat.leb n (length p) && Nat.eqb (length vw) n in
    let sym := symmetricb g in
    (* the sparse-matrix path is in contract only on a valid sparse matrix: strictly
       increasing indices in every row (the harness also feeds it rows in any order through
       the unchecked constructor the C API uses -- a separate stream, model-checked only) *)
    let valid_matrix := rows_sortedb true g in
    let prop :=
      if in_contract then
        let d := cut_lower g p in
        let l := lambda_def (S (max_part p)) g p vw in
        (if sym then d =? cut_pairs g p else true)
        && andl [obs_is Z.eqb d (go_gen_cut o); obs_is Z.eqb d (go_gen_cut_f o);
                 obs_is Z.eqb l (go_csr_lam o); obs_is Z.eqb l (go_gen_lam o);
                 obs_is Z.eqb l (go_csr_lam_f o); obs_is Z.eqb l (go_gen_lam_f o)]
        && (if valid_matrix then obs_is Z.eqb d (go_csr_cut o) && obs_is Z.eqb d (go_csr_cut_f o) else true)
      else true in
    {| corr_ok := corr; prop_ok := prop;
       cls := if in_contract then
                (if valid_matrix then (if sym then 0 else 1)
                 else match go_csr_cut o with
                      | OAbsent => 7
                      | OVal x => if x =? cut_lower g p then 8 else 9
                      | _ => 8
                      end)
              else 2 |}
  | CGrid dims lat p vw o =>
    let n := grid_len dims in
    let gr := grid_rows dims in
    let corr := lattice_graphb dims lat && andl [
      obs_corr nat_rows_eqb (Ok (map (grid_neighbors dims) (seq 0 n))) (gr_rows o);
      obs_corr Z.eqb (edge_cut gr p) (gr_cut o); obs_corr Z.eqb (lambda_cut gr p vw) (gr_lam o);
      obs_corr Z.eqb (sprs_edge_cut lat p) (gr_csr_cut o); obs_corr Z.eqb (sprs_lambda_cut lat p vw) (gr_csr_lam o);
      obs_corr Z.eqb (edge_cut lat p) (gr_gen_cut o); obs_corr Z.eqb (lambda_cut lat p vw) (gr_gen_lam o);
      obs_corr Z.eqb (edge_cut gr p) (gr_cut_f o)] in
    let in_contract := Nat.leb n (length p) && Nat.eqb (length vw) n && forallb (fun s => Nat.ltb 0 s) dims in
    let prop :=
      if in_contract then
        let d := lattice_cut dims p in
        let l := lambda_def (S (max_part p)) gr p vw in
        andl [obs_is Z.eqb d (gr_cut o); obs_is Z.eqb d (gr_csr_cut o); obs_is Z.eqb d (gr_gen_cut o);
              obs_is Z.eqb d (gr_cut_f o);
              obs_is Z.eqb l (gr_lam o); obs_is Z.eqb l (gr_csr_lam o); obs_is Z.eqb l (gr_gen_lam o)]
      else true in
    {| corr_ok := corr; prop_ok := prop; cls := if in_contract then 3 else 4 |}
  | CLoad depth k p ws targets o => eval_load false depth k p ws targets o
  | CManyLoad depth k ps ws targets o => eval_load true depth (N.to_nat k) (expand ps) ws targets o
  | CBigGraph offs ps vw o =>
    let p := expand ps in
    (* matrices built with CsMat::new: must be valid.  The definition is evaluated through
       the generic model, which IS the definition by C16_cut_lower_def / C16_cut_def /
       C16_lambda_cut_def (cut_lower itself is quadratic in n). *)
    let g := rows_of_offsets offs in
    let n := length g in
    let ok := offsets_ok offs && wf_graphb g && rows_sortedb true g in
    let mc := edge_cut g p in
    let ms := sprs_edge_cut g p in
    let ml := lambda_cut g p vw in
    let corr := ok && andl [
      obs_corr Z.eqb ms (go_csr_cut o); obs_corr Z.eqb mc (go_gen_cut o);
      obs_corr Z.eqb ml (go_csr_lam o); obs_corr Z.eqb ml (go_gen_lam o);
      obs_corr Z.eqb ms (go_csr_cut_f o); obs_corr Z.eqb mc (go_gen_cut_f o);
      obs_corr Z.eqb ml (go_csr_lam_f o); obs_corr Z.eqb ml (go_gen_lam_f o)] in
    let in_contract := ok && Nat.leb n (length p) && Nat.eqb (length vw) n in
    let prop :=
      if in_contract then
        match mc, ml with
        | Ok d, Ok l =>
          andl [obs_is Z.eqb d (go_csr_cut o); obs_is Z.eqb d (go_gen_cut o);
                obs_is Z.eqb d (go_csr_cut_f o); obs_is Z.eqb d (go_gen_cut_f o);
                obs_is Z.eqb l (go_csr_lam o); obs_is Z.eqb l (go_gen_lam o);
                obs_is Z.eqb l (go_csr_lam_f o); obs_is Z.eqb l (go_gen_lam_f o)]
        | _, _ => false
        end
      else true in
    {| corr_ok := corr; prop_ok := prop; cls := 10 |}
  | CBigGrid dims offs ps vw o =>
    let p := expand ps in
    (* Grid with thousands of cells.  [offs] must be exactly the lattice (ascending
       closed form); the Grid's own neighbour lists must be the iterator's closed form;
       all cuts must equal the generic model on the lattice matrix (= lattice cut by
       C16_cut_def and C16_grid_cut_is_lattice_cut). *)
    let n := grid_len dims in
    let vs := seq 0 n in
    let g := rows_of_offsets offs in
    let ok := Nat.eqb (length offs) n && forallb (fun s => Nat.ltb 0 s) dims
              && zrows_eqb (map (fun r : list (Z * Z) => map fst r) offs) (map (grid_offsets_sorted dims) vs)
              && forallb (forallb (fun dw : Z * Z => snd dw =? 1)) offs in
    let mc := edge_cut g p in
    let ml := lambda_cut g p vw in
    let corr := ok && andl [
      obs_corr zrows_eqb (Ok (map (grid_offsets_iter dims) vs)) (bg_rows o);
      obs_corr Z.eqb mc (bg_cut o); obs_corr Z.eqb ml (bg_lam o);
      obs_corr Z.eqb (sprs_edge_cut g p) (bg_csr_cut o); obs_corr Z.eqb ml (bg_csr_lam o);
      obs_corr Z.eqb mc (bg_gen_cut o); obs_corr Z.eqb ml (bg_gen_lam o);
      obs_corr Z.eqb mc (bg_cut_f o)] in
    let in_contract := ok && Nat.leb n (length p) && Nat.eqb (length vw) n in
    let prop :=
      if in_contract then
        match mc, ml with
        | Ok d, Ok l =>
          andl [obs_is Z.eqb d (bg_cut o); obs_is Z.eqb d (bg_csr_cut o); obs_is Z.eqb d (bg_gen_cut o);
                obs_is Z.eqb d (bg_cut_f o);
                obs_is Z.eqb l (bg_lam o); obs_is Z.eqb l (bg_csr_lam o); obs_is Z.eqb l (bg_gen_lam o)]
        | _, _ => false
        end
      else true in
    {| corr_ok := corr; prop_ok := prop; cls := 11 |}
  end.

Definition run16 (cs : list case16) := report (map eval16 cs).

(* sanity of the closed forms used for the large grids, against the model's iterator
   (the general statement is grid_neighbors_2d / _3d in Proofs/MetricsGridProofs.v) *)
Example big_grid_closed_forms :
  forallb (fun dims : list nat =>
    let n := grid_len dims in
    list_eqb (list_eqb Z.eqb)
      (map (fun v => map (fun u => Z.of_nat u - Z.of_nat v) (grid_neighbors dims v)) (seq 0 n))
      (map (grid_offsets_iter dims) (seq 0 n))
    && lattice_graphb dims (rows_of_offsets
         (map (fun v => map (fun d => (d, 1)) (grid_offsets_sorted dims v)) (seq 0 n))))
    [[3; 4]; [1; 5]; [5; 1]; [2; 3; 2]; [3; 1; 2]; [1; 1; 4]; [4; 3; 3]]%nat = true.
Proof. vm_compute. reflexivity. Qed.

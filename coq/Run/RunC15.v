(* Evaluation of C15 correspondence cases: model vs implementation (exact
   partitions: KernighanLin is deterministic), and the certified checker on
   the implementation's output.  Depends on the model and the generated constants only (not on the proofs). *)
From Coupe Require Import Lib.Prelude Lib.Report Lib.Graph Model.Kl Gen.KlGen.
Open Scope Z_scope.

Record case15 := mk15 {
  c_g : graph; c_sprs : bool (* CsMatView (true) or a topology with the trait's own edge_cut *);
  c_model : bool (* evaluate the model too (false: thousands of vertices and unlimited flips -- certified checker only) *);
  c_wlen : nat; c_p0 : list N;
  c_mp : option N; c_mf : option N; c_mb : N;
  c_impl : impl_res }.

Definition eval15 (c : case15) : verdict :=
  let cfg := {| max_passes := c_mp c; max_flips := c_mf c; max_bad := c_mb c; old_scan := kl_first_scan_unwraps; old_rewind := kl_rewind_keeps_first_swap;
               few_ids_return := kl_few_ids_return; sprs_cut := c_sprs c |} in
  let g := c_g c in
  let p0 := c_p0 c in
  (* the model is evaluated inside the branch (vm_compute is call-by-value) *)
  let corr := if c_model c then res_matches (kl cfg (kl_fuel (c_sprs c) g p0) g (c_wlen c) p0) (c_impl c) else true in
  let two_ids := Nat.leb (length (uniq [] p0)) 2 in
  (* usage contract of the property: square well-formed symmetric matrix (CSR: sorted rows) with positive
     weights, as many vertex weights as vertices, at most two part ids in use *)
  let in_contract :=
    wf_graphb g (length p0) && (negb (c_sprs c) || rows_sortedb g) && Nat.eqb (c_wlen c) (length p0)
    && symmetricb_fast g && pos_edgesb g && two_ids in
  let prop :=
    if in_contract then
      match c_impl c with
      | IOk p => check_C15 g p0 p
      | _ => false                       (* panic, hang or error inside the contract *)
      end
    else true in
  (* 0 unchanged | 1 changed | 2 panic | 3 hang | 4 other;  +10 outside the contract, +20 known-finding class *)
  let base := match c_impl c with
              | IOk p => if list_eqb N.eqb p p0 then 0 else 1
              | IPanic => 2 | IHang => 3 | IErr _ _ _ => 4 end%N in
  let cls := (if two_ids then (if in_contract then base else base + 10) else base + 20)%N in
  {| corr_ok := corr; prop_ok := prop; cls := cls |}.

Definition run15 (cs : list case15) := report (map eval15 cs).

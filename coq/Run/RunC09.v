(* Evaluation of C09 correspondence cases (three streams: the library binary
   search, HilbertCurve, ZCurve): model vs implementation, and the certified
   checkers on the implementation's output.  Depends on the model and the
   generated constants only (not on the proofs). *)
From Coupe Require Import Lib.Prelude Lib.SFloat Lib.Report Lib.Sorting Model.SfcPart Model.ZGeom Gen.SfcGen.
Open Scope nat_scope.

Inductive case09 :=
(* a.binary_search(&k) = Ok/Err r_idx; a.binary_search_by(|x| partial_cmp(x,&k)) = Ok|Err pc_idx *)
| CBs (a : list N) (k : N) (r_ok : bool) (r_idx pc_idx : N)
(* HilbertCurve: dimension, order, part_count, number of points, weights (f64 bits), additions exact?, recorded
   hilbert_indices and hilbert_splits (empty when the run returned before recording), initial ids, result *)
| CHil (dim order k npts : N) (ws : list N) (exact : bool) (idx splits : list N) (p0 : list N) (impl : impl_res)
(* ZCurve: dimension, order, part_count, number of points, recorded quadrant codes (one list of
   `order` quadrants per point) and final permutation, recorded bounding box (p_min then p_max,
   f64 bits) and rotated coordinates (D f64 bits per point), initial ids, result *)
| CZ (dim order k n : N) (codes : list (list N)) (perm : list N) (aabb : list N) (rot : list (list N))
     (p0 : list N) (impl : impl_res).

Definition res_eqb {A} (eqb : A -> A -> bool) (r : res A) (x : A) : bool :=
  match r with Ok y => eqb y x | _ => false end.

Definition wq_fuel : nat := 2000.

Definition tol := f64_of_bits hilbert_split_tolerance_bits.

Definition cls_of (i : impl_res) : N :=
  match i with IOk _ => 0 | IErr _ _ _ => 2 | IPanic => 3 | IHang => 4 end%N.

Definition eval_hil (dim order k npts : N) (wsb : list N) (exact : bool) (idx splits p0 : list N) (impl : impl_res) : verdict :=
  let maxo := if (dim =? 2)%N then hilbert_max_order_2d else hilbert_max_order_3d in
  let ws := map (fun b => f64_of_bits b) wsb in
  let kk := N.to_nat k in
  let np := N.to_nat npts in
  let early := (maxo <? order)%N || Nat.eqb (length p0) 0 in
  (* the full model when the weighted sums are exact (or there is no point at all);
     otherwise the recorded split vector is an input *)
  let use_full := early || exact || Nat.eqb np 0 in
  let from_recorded := bind (assign_parts splits idx) (fun ids => Ok (write_zip p0 ids)) in
  let model := if use_full then hilbert_partition tol maxo order wq_fuel idx ws kk p0 else from_recorded in
  let recorded_ok := early || Nat.eqb (length idx) np in
  let splits_ok :=
    if early then true
    else
      Nat.eqb (length splits + 1) kk
      && res_eqb (list_eqb N.eqb) from_recorded (match impl with IOk p => p | _ => [] end)
      && (if exact then res_eqb (list_eqb N.eqb) (weighted_quantiles tol wq_fuel idx ws kk) splits else true) in
  let corr :=
    match impl with
    | IOk _ => recorded_ok && res_matches model impl && splits_ok
    | IErr _ _ _ => res_matches model impl
    (* a panic is explained only by the full model on what was really recorded *)
    | IPanic => res_matches model impl && use_full && (Nat.eqb np 0 || Nat.eqb (length idx) np)
    (* a hang is explained only if the (sequential) model runs out of its fuel on what was
       recorded: the known non-termination of the quantile search on tiny weights
       (Proofs/WqNonTermination.v); it still fails the property below *)
    | IHang =>
      Nat.eqb (length idx) np && negb early
      && match hilbert_partition tol maxo order wq_fuel idx ws kk p0 with OutOfFuel => true | _ => false end
    end in
  let in_contract := Nat.eqb np (length p0) && Nat.eqb (length wsb) (length p0) && (1 <=? k)%N in
  let prop :=
    if (maxo <? order)%N then match impl with IErr 4 _ _ => true | _ => false end
    else if Nat.eqb (length p0) 0 then match impl with IOk [] => true | _ => false end
    else if in_contract then match impl with IOk p => check_monotone idx p | _ => false end
    else true in
  {| corr_ok := corr; prop_ok := prop; cls := cls_of impl |}.

(* canonical form of a ZCurve result: the (cell, id) pairs sorted lexicographically *)
Definition pair_leb (a b : list N * N) : bool :=
  lex_ltb (fst a) (fst b) || (lex_leb (fst a) (fst b) && (snd a <=? snd b)%N).
Fixpoint insert_pair (x : list N * N) (l : list (list N * N)) : list (list N * N) :=
  match l with
  | [] => [x]
  | y :: t => if pair_leb x y then x :: l else y :: insert_pair x t
  end.
Definition canon (codes : list (list N)) (ids : list N) : list (list N * N) :=
  fold_right insert_pair [] (combine codes ids).
Definition pair_eqb (a b : list N * N) : bool :=
  list_eqb N.eqb (fst a) (fst b) && (snd a =? snd b)%N.

Definition eval_z (dim order k n : N) (codes : list (list N)) (permN : list N) (aabb : list N) (rot : list (list N))
           (p0 : list N) (impl : impl_res) : verdict :=
  let nq := if (dim =? 2)%N then 4 else 8 in
  let maxo := if (dim =? 2)%N then zcurve_max_order_2d else zcurve_max_order_3d in
  let o := N.to_nat order in
  let kk := N.to_nat k in
  let nn := N.to_nat n in
  let perm := map N.to_nat permN in
  (* the quadrant oracle, from the codes the run recorded along each point's own path *)
  let q := oracle_of_codes codes in
  let model := zcurve zcurve_chunk_guard nq maxo q sort_by_key o kk nn p0 in
  let in_contract := Nat.eqb (length p0) nn && (1 <=? kk) && (o <=? maxo) in
  let codes_ok :=
    Nat.eqb (length codes) nn
    && forallb (fun c => Nat.eqb (length c) o && forallb (fun r => (r <? N.of_nat nq)%N) c) codes in
  (* the box arithmetic of src/geometry.rs on the recorded box and rotated coordinates *)
  let d := N.to_nat dim in
  let bx := box_of_bits (firstn d aabb) (skipn d aabb) in
  let pts := map (map (fun b => f64_of_bits b)) rot in
  let geo_corr :=
    Nat.eqb (length aabb) (2 * d) && Nat.eqb (length rot) nn
    && forallb (fun c => Nat.eqb (length c) d) rot
    && list_eqb (list_eqb N.eqb) (map (geo_codes o bx) pts) codes in
  let corr :=
    match impl, model with
    | IOk p, Ok pm =>
      if Nat.eqb nn 0 then list_eqb N.eqb p pm
      else
        codes_ok
        (* the recorded quadrants are what the modelled box arithmetic gives *)
        && geo_corr
        (* the run's own permutation explains its ids ... *)
        && check_runs codes perm p kk
        && res_eqb (list_eqb N.eqb) (z_assign zcurve_chunk_guard perm kk p0) p
        (* ... and model (canonical stable sort) and implementation agree on what the property
           fixes: the sequence of (cell, id) along the sorted order (tie order is unspecified) *)
        && check_zparts codes pm kk
        && list_eqb pair_eqb (canon codes p) (canon codes pm)
    | IPanic, Panic _ => true
    | _, _ => false
    end in
  let prop :=
    if in_contract then
      match impl with
      | IOk p => check_zparts codes p kk
                 (* the cell a point is sorted by must contain the point *)
                 && (Nat.eqb nn 0 || check_cells (N.of_nat nq) bx pts codes)
      | _ => false
      end
    else true in
  {| corr_ok := corr; prop_ok := prop; cls := cls_of impl |}.

Definition eval09 (c : case09) : verdict :=
  match c with
  | CBs a k r_ok r_idx pc_idx =>
    let c1 := match bsearch a k with Ok (b, i) => Bool.eqb b r_ok && (N.of_nat i =? r_idx)%N | _ => false end in
    let c2 := match bsearch_pc_idx a k with Ok i => (N.of_nat i =? pc_idx)%N | _ => false end in
    {| corr_ok := c1 && c2; prop_ok := true; cls := 10%N |}
  | CHil dim order k npts ws exact idx splits p0 impl => eval_hil dim order k npts ws exact idx splits p0 impl
  | CZ dim order k n codes perm aabb rot p0 impl => eval_z dim order k n codes perm aabb rot p0 impl
  end.

Definition run09 (cs : list case09) := report (map eval09 cs).

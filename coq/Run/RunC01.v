(* C01 run glue: the range checker on the implementation's output.
   check_ids is trivially sound and complete for "every element has an id
   below the requested count" (lemma in Proofs/C01Proofs.v). *)
From Coupe Require Import Lib.Prelude Lib.Report.

Record case01 := mk01 { a_alg : N; a_parts : N; a_len : nat; a_impl : impl_res }.

Definition check_ids (parts : N) (n : nat) (p : list N) : bool :=
  Nat.eqb (length p) n && forallb (fun x => (x <? parts)%N) p.

Definition eval01 (c : case01) : verdict :=
  let prop :=
    match a_impl c with
    | IOk p => check_ids (a_parts c) (a_len c) p
    | IErr 0 _ _ => (a_alg c =? 11)%N        (* NotFound is allowed for CompleteKarmarkarKarp only *)
    | _ => false                              (* panic, hang, or an error inside the contract *)
    end in
  {| corr_ok := true; prop_ok := prop; cls := a_alg c |}.

Definition run01 (cs : list case01) := report (map eval01 cs).

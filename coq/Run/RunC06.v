(* C06 run glue: all outputs of one case (pools 1,2,3,4,8,16, repeated) must
   coincide — literally, or up to a renaming of part ids (MultiJagged), decided
   by canonicalising each output by first occurrence.  Lemmas about
   [all_same] / [canon] are in Proofs/C06Proofs.v. *)
From Coupe Require Import Lib.Prelude Lib.Report.

Record case06 := mk06 { s_alg : N; s_rename : bool; s_failed : bool; s_outs : list (list N) }.

Fixpoint lookup (m : list (N * N)) (x : N) : option N :=
  match m with
  | [] => None
  | (k, v) :: t => if (k =? x)%N then Some v else lookup t x
  end.

(* rename ids by order of first occurrence: 0, 1, 2, ... *)
Fixpoint canon_aux (m : list (N * N)) (next : N) (p : list N) : list N :=
  match p with
  | [] => []
  | x :: t =>
    match lookup m x with
    | Some v => v :: canon_aux m next t
    | None => next :: canon_aux ((x, next) :: m) (next + 1) t
    end
  end.
Definition canon (p : list N) : list N := canon_aux [] 0 p.

Definition all_same (outs : list (list N)) : bool :=
  match outs with
  | [] => true
  | o :: rest => forallb (list_eqb N.eqb o) rest
  end.

Definition eval06 (c : case06) : verdict :=
  let outs := if s_rename c then map canon (s_outs c) else s_outs c in
  {| corr_ok := true; prop_ok := negb (s_failed c) && all_same outs; cls := s_alg c |}.

Definition run06 (cs : list case06) := report (map eval06 cs).

(* Evaluation of C08 correspondence cases: model vs implementation, and direct
   boolean checks of the property on the implementation's own outputs.
   Depends on the model and the generated tables only (not on the proofs). *)
From Coupe Require Import Lib.Prelude Lib.SFloat Lib.Report Model.Hilbert Gen.HilbertTables.
From Coq Require Import FSets.FMapPositive.
Open Scope N_scope.

(* what segment_to_segment did: the cells of the sample values, or panic / hang *)
Inductive seg_out := SOk (cells : list N) | SPanic | SHang.

Inductive case08 :=
| KPdep (src mask hw fb : N)                       (* pdep_u64 (hardware path), pdep_u64_fallback *)
| KSlow (zorder order config h c : N)              (* encode_2d_slow *)
| K2 (order x y h hp : N) (nb : list N)            (* encode_2d: cell, parent cell, face neighbours *)
| K3 (order x y z h hp : N) (nb : list N)          (* encode_3d: same *)
| KAll2 (order : N) (hs hps : list N)              (* every cell at [order] (x-major) and at [order-1] *)
| KAll3 (order : N) (hs hps : list N)
| KSeg (mn mx order : N) (vs : list N) (o : seg_out) (* segment_to_segment, values ascending *)
| KOrder (dim order : N) (r : impl_res)              (* HilbertCurve::partition (public), 8 points, 2 parts *)
| KImplPanic (what : N).                           (* an encoder panicked or hung inside the contract *)

Definition okN (r : res N) (v : N) : bool := match r with Ok a => a =? v | _ => false end.

Fixpoint all2 {A B} (f : A -> B -> bool) (a : list A) (b : list B) : bool :=
  match a, b with
  | [], [] => true
  | x :: a', y :: b' => f x y && all2 f a' b'
  | _, _ => false
  end.

(* exhaustive check of one order: [hs] lists the index of every cell, cell
   number = x * side + y (resp. (x * side + y) * side + z), [hps] the same one
   order lower.  The table is read back as a function of the cell and
   [check_table2/3] (Model/Hilbert.v) runs the per-cell check at EVERY cell: it
   accepts every indexing that has the property (Proofs/HilbertChecker.v), and
   if every cell passes, walking predecessors / successors from any cell visits
   every index, so the table is a bijection with adjacent consecutive cells. *)
Definition table_of (hs : list N) : PositiveMap.t N :=
  snd (fold_left (fun acc h => (fst acc + 1, PositiveMap.add (N.succ_pos (fst acc)) h (snd acc)))
                 hs (0, PositiveMap.empty N)).
(* a missing entry reads as 2^64: out of range for every accepted order *)
Definition lookup (m : PositiveMap.t N) (i : N) : N :=
  match PositiveMap.find (N.succ_pos i) m with Some h => h | None => two64 end.
Definition check_all2 (order : N) (hs hps : list N) : bool :=
  let side := 2 ^ order in
  let m := table_of hs in let mp := table_of hps in
  (N.of_nat (length hs) =? side * side)
  && check_table2 order (fun c => lookup m (fst c * side + snd c))
                        (fun c => lookup mp (fst c * (side / 2) + snd c)).
Definition check_all3 (order : N) (hs hps : list N) : bool :=
  let side := 2 ^ order in
  let m := table_of hs in let mp := table_of hps in
  (N.of_nat (length hs) =? side * side * side)
  && check_table3 order (fun c => let '(x, y, z) := c in lookup m ((x * side + y) * side + z))
                        (fun c => let '(x, y, z) := c in lookup mp ((x * (side / 2) + y) * (side / 2) + z)).

Definition eval08 (c : case08) : verdict :=
  match c with
  | KPdep src mask hw fb =>
    let m := pdep src mask in
    {| corr_ok := (m =? hw) && (m =? fb); prop_ok := true; cls := 0 |}
  | KSlow zorder order config h c' =>
    let corr := match encode_2d_slow zorder (N.to_nat order) config with
                | Ok (mh, mc) => (mh =? h) && (mc =? c')
                | _ => false
                end in
    {| corr_ok := corr; prop_ok := true; cls := 1 |}
  | K2 order x y h hp nb =>
    let corr :=
      okN (encode_2d x y order) h
      && ((order =? 0) || okN (encode_2d (x / 2) (y / 2) (order - 1)) hp)
      && all2 (fun p h' => okN (encode_2d (fst p) (snd p) order) h') (nbrs2 order x y) nb in
    let prop := if order <=? max_order_2d then check_cell 2 order h hp nb else true in
    {| corr_ok := corr; prop_ok := prop; cls := 2 |}
  | K3 order x y z h hp nb =>
    let corr :=
      okN (encode_3d x y z order) h
      && ((order =? 0) || okN (encode_3d (x / 2) (y / 2) (z / 2) (order - 1)) hp)
      && all2 (fun p h' => let '(a, b, c) := p in okN (encode_3d a b c order) h') (nbrs3 order x y z) nb in
    let prop := if order <=? max_order_3d then check_cell 3 order h hp nb else true in
    {| corr_ok := corr; prop_ok := prop; cls := 3 |}
  | KAll2 order hs hps =>
    let corr := all2 (fun p h' => okN (encode_2d (fst p) (snd p) order) h') (all_cells2 order) hs in
    {| corr_ok := corr; prop_ok := check_all2 order hs hps; cls := 4 |}
  | KAll3 order hs hps =>
    let corr := all2 (fun p h' => let '(a, b, c) := p in okN (encode_3d a b c order) h') (all_cells3 order) hs in
    {| corr_ok := corr; prop_ok := check_all3 order hs hps; cls := 5 |}
  | KSeg mn mx order vs o =>
    let fmn := f64_of_bits mn in let fmx := f64_of_bits mx in
    let fvs := map (fun b => f64_of_bits b) vs in
    let r := segment_to_segment seg_fuel fmn fmx order fvs in
    let corr := match r, o with
                | Ok cells, SOk cells' => list_eqb N.eqb cells cells'
                | Panic _, SPanic => true
                | OutOfFuel, SHang => true
                | _, _ => false
                end in
    (* contract: finite bounds with min <= max, order accepted, values inside the interval *)
    let in_contract :=
      is_finite fmn && is_finite fmx && fle fmn fmx && (order <=? max_order_2d)
      && forallb (fun v => fle fmn v && fle v fmx) fvs in
    let prop := if in_contract then match o with SOk cells => check_seg order cells | _ => false end else true in
    {| corr_ok := corr; prop_ok := prop;
       (* class 10: the nextafter loop was entered (the factor was decreased at least once) *)
       cls := match o with
              | SOk _ => match seg_factor 0 fmn fmx order with OutOfFuel => 10 | _ => 6 end
              | SPanic => 7 | SHang => 8
              end |}
  | KOrder dim order r =>
    let mx := if dim =? 2 then max_order_2d else max_order_3d in           (* what the source says *)
    let spec := if dim =? 2 then spec_max_order_2d else spec_max_order_3d in (* what the property says *)
    let corr := match order_guard mx order, r with
                | Ok _, IOk _ => true
                | Err e, IErr c a b => err_matches e c a b
                | _, _ => false
                end in
    (* accepted range is part of the property: orders <= 32 / 21 work (ids below the part count),
       every higher order is refused with InvalidOrder { max, actual } *)
    let prop := match r with
                | IOk p => (order <=? spec) && forallb (fun i => i <? 2) p
                | IErr 4 a b => (spec <? order) && (a =? spec) && (b =? order)
                | _ => false
                end in
    {| corr_ok := corr; prop_ok := prop; cls := 11 |}
  | KImplPanic _ => {| corr_ok := false; prop_ok := false; cls := 9 |}
  end.

Definition run08 (cs : list case08) := report (map eval08 cs).

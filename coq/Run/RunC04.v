(* Evaluation of the Rcb / Rib correspondence cases for C04: model vs
   implementation, and the certified checker [check_balance] on every
   bisection of the implementation's partition. *)
From Coupe Require Import Lib.Prelude Lib.SFloat Lib.Report Model.Rcb Run.RunC03.
From Coq Require Import Floats.SpecFloat.
Open Scope Z_scope.

Definition eval04 (c : caseR) : verdict :=
  (* model = implementation, and the decidable premise of the C04 theorem
     (root box encloses the binary32 coordinates) holds inside the contract *)
  let corr := res_matches (model_of c) (r_impl c) && premise_ok c in
  let prop :=
    if in_contract c then
      match r_impl c with
      | IOk p => check_balance32 (r_D c) (r_k c) (f64_of_bits (r_tol c)) (pts_of c) (r_ws c) p
      | _ => false
      end
    else if wellformed c then true
    else malformed_ok c in
  {| corr_ok := corr; prop_ok := prop; cls := cls_of c |}.

Definition run04 (cs : list caseR) := report (map eval04 cs).

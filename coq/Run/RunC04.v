(* Evaluation of the Rcb / Rib correspondence cases for C04: model vs
   implementation, and the certified checker [check_balance] on every
   bisection of the implementation's partition (Run/RunC03.v, eval_rcb). *)
From Coupe Require Import Lib.Prelude Lib.SFloat Lib.Report Model.Rcb Run.RunC03.
Open Scope Z_scope.

Definition eval04 := eval_rcb true.
Definition run04 (cs : list caseR) := report (map eval04 cs).

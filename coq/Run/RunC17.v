(* Evaluation of C17 correspondence cases.  Depends on the model and the generated tables only.

   A case holds: the data sets as the C caller laid them out (representation, Type tag, cells), the
   parameters, the caller's array before the call, what the harness handed to the Rust API (numeric
   type, weight values, points, converted parameters) with the Rust API's result, and what the C entry
   point of the freshly built cdylib did.

   corr_ok: the model (Model/FfiInst.v: Model/Ffi.v at the tables read from the current source), with its
            abstract Rust algorithm replaced by an oracle that returns the recorded Rust result ONLY when
            called on exactly the recorded arguments, predicts what the C entry point did.
   prop_ok: the property itself, judged without the model: the C entry point returned the documented
            code for the Rust result (Ok -> OK and the same array; Err e -> the code coupe.h documents
            for e, array as the Rust API left it; panic -> CRASH; never an abort / unwinding), or one of
            the documented argument errors with the array untouched.
   fiduccia_mattheyses iterates over HashSets (random order per process and per call): on success only
   what is deterministic is compared (code, length, ids in {0,1}, untouched tail, cut not worse). *)
From Coupe Require Import Lib.Prelude Lib.SFloat Lib.Report Gen.FfiTables Model.Ffi.
From Coq Require Import String.
From Coq Require Import Uint63.
Open Scope N_scope.

(* a double's bit pattern written as two 32-bit halves in primitive integers: a case file with thousands of
   doubles then type-checks ten times faster than with 64-bit N literals (63 constructors each) *)
Definition VD (hi lo : int) : value :=
  VDouble (Z.to_N (Uint63.to_Z hi) * 4294967296 + Z.to_N (Uint63.to_Z lo)).
Arguments VD (hi lo)%uint63.

(* callback data set: the cells behind the pointer i_th returns for index i; an index the harness never
   serves has no memory behind it (reading it is UB in the model) *)
Definition tbl (rows : list (list value)) : nat -> ptr := fun i => match nth_opt rows i with Some r => r | None => [] end.

Inductive ref_res := RROk (arr : list N) | RRErr (e : error) (arr : list N) | RRPanic | RRHang.
Record refcall := mk_ref { r_nt : numty; r_ws : list value; r_pts : list (list value); r_params : list (option N); r_res : ref_res }.
Inductive c_res := CRet (code : N) (arr : list N) | CAbort | CHang.

Record case17 := mk17 {
  k_entry : N;                 (* 0 rcb 1 rib 2 hilbert 3 greedy 4 karmarkar_karp 5 karmarkar_karp_complete 6 fiduccia_mattheyses
                                  7 adjncy_csr (structure check only); 10 + e: entry e on a large data set (summary only) *)
  k_dim : N;
  k_points : data;
  k_weights : data;
  k_adj : adjacency;
  k_params : list N;           (* as passed to C; floats as bits *)
  k_p0 : list N;
  k_ref : option refcall;      (* None: the Rust API has no call for this input *)
  k_c : c_res }.

Definition values_eqb := list_eqb value_eqb.
Definition opt_eqb (a b : option N) : bool :=
  match a, b with Some x, Some y => x =? y | None, None => true | _, _ => false end.

(* the oracle standing for the Rust algorithm *)
Definition oracle (c : case17) (nt : numty) (ws : list value) (ps : list (list value)) (params : list (option N))
           (slice : list N) : res (list N) :=
  match k_ref c with
  | None => Panic 998            (* the model calls the algorithm where the harness found no Rust call to make *)
  | Some r =>
    if numty_eqb nt (r_nt r) && values_eqb ws (r_ws r) && list_eqb values_eqb ps (r_pts r)
       && list_eqb opt_eqb params (r_params r) && list_eqb N.eqb slice (firstn (List.length slice) (k_p0 c)) then
      match r_res r with
      | RROk arr => Ok (firstn (List.length slice) arr)
      | RRErr e _ => Err e
      | RRPanic => Panic 1
      | RRHang => OutOfFuel
      end
    else Panic 999               (* the model reads the data differently from what the harness gave the Rust API *)
  end.

(* The model at the generated tables, compiled here with explicit failure (not through Model/FfiInst.v, which
   does not build when a table cannot be typed): if the translator could not read the source, or an entry
   cannot be typed, the model has no prediction ([BadArity], never equal to what the C side did), every case
   fails the correspondence, and the model-free property clause below is still judged on every case. *)
Definition o_arms : option (list (string * code)) := compile_arms ffi_error_arms.
Definition o_crash : option code := code_of_name ffi_guard_code.
Definition inst (name : string) : option centry :=
  match ffi_translator_errors with [] => compile_named name ffi_entries | _ => None end.

Definition model_outcome (c : case17) : outcome :=
  let p0 := k_p0 c in
  let args := k_params c in
  let geo := fun (d : nat) ps nt ws params s => oracle c nt ws ps params s in
  let num := fun nt ws params s => oracle c nt ws [] params s in
  match o_arms, o_crash with
  | Some arms, Some crash =>
    let on (name : string) (k : centry -> outcome) := match inst name with Some e => k e | None => BadArity end in
    match k_entry c with
    | 0 => on "coupe_rcb"%string (fun e => entry_geo arms crash e geo p0 (k_dim c) (k_points c) (k_weights c) args)
    | 1 => on "coupe_rib"%string (fun e => entry_geo arms crash e geo p0 (k_dim c) (k_points c) (k_weights c) args)
    | 2 => on "coupe_hilbert"%string (fun e => entry_geo arms crash e geo p0 2 (k_points c) (k_weights c) args)
    | 3 => on "coupe_greedy"%string (fun e => entry_num arms crash e num p0 (k_weights c) args)
    | 4 => on "coupe_karmarkar_karp"%string (fun e => entry_num arms crash e num p0 (k_weights c) args)
    | 5 => on "coupe_karmarkar_karp_complete"%string (fun e => entry_num arms crash e num p0 (k_weights c) args)
    | 6 => on "coupe_fiduccia_mattheyses"%string
              (fun e => entry_fm arms crash e (fun adj nt ws params s => oracle c nt ws [] params s) p0 (k_adj c) (k_weights c) args)
    | _ =>
      (* 7: coupe_adjncy_csr's structure check (cell 0 := 1 iff a matrix is returned) is not modelled; the
         case is judged by prop_ok only (against sprs' own check) *)
      match k_c c with CRet code arr => Returns COk (Some arr) | _ => UB end
    end
  | _, _ => BadArity
  end.

Definition is_fm (c : case17) : bool := k_entry c =? 6.

(* edge cut of a CSR graph under a partition (each edge is stored twice) *)
Fixpoint row_cut (p : list N) (pi : N) (cols : list N) (vals : list value) : option Z :=
  match cols, vals with
  | [], _ => Some 0%Z
  | j :: cols', VInt64 w :: vals' =>
    match nth_opt p (N.to_nat j), row_cut p pi cols' vals' with
    | Some pj, Some r => Some (if pi =? pj then r else (w + r)%Z)
    | _, _ => None
    end
  | _, _ => None
  end.
Fixpoint rows_cut (p : list N) (i : nat) (xadj : list N) (adjncy : list N) (vals : list value) : option Z :=
  match xadj with
  | a :: ((b :: _) as xt) =>
    let k := N.to_nat (b - a) in
    match nth_opt p i with
    | None => None
    | Some pi =>
      match row_cut p pi (firstn k adjncy) (firstn k vals), rows_cut p (S i) xt (skipn k adjncy) (skipn k vals) with
      | Some r, Some rest => Some (r + rest)%Z
      | _, _ => None
      end
    end
  | _ => Some 0%Z
  end.
Definition cut (a : adjacency) (p : list N) : option Z := rows_cut p 0 (a_xadj a) (a_adjncy a) (a_vals a).

Definition fm_ok_shape (c : case17) (arr : list N) : bool :=
  let n := dlen (k_weights c) in
  Nat.eqb (List.length arr) (List.length (k_p0 c))
  && forallb (fun x => x <=? 1) (firstn n arr)
  && list_eqb N.eqb (skipn n arr) (skipn n (k_p0 c))
  && match cut (k_adj c) (firstn n arr), cut (k_adj c) (firstn n (k_p0 c)) with
     | Some a, Some b => (a <=? b)%Z
     | _, _ => false
     end.

(* model prediction = C behaviour *)
Definition corr17 (c : case17) : bool :=
  match model_outcome c, k_c c with
  | Returns code (Some arr), CRet code' arr' =>
    (code_disc code =? code') && (if is_fm c && (code' =? 0) then fm_ok_shape c arr' else list_eqb N.eqb arr arr')
  | Returns code None, CRet code' _ => code_disc code =? code'
  | Unwinds, CAbort => true
  | Hangs, CHang => true
  | _, _ => false
  end.

(* argument errors coupe.h documents (no precedence among them is documented: any applicable one is accepted) *)
Definition argument_errors (c : case17) : list N :=
  let geo := k_entry c <=? 2 in
  (if geo && negb (Nat.eqb (dlen (k_points c)) (dlen (k_weights c))) then [code_disc CLenMismatch] else [])
  ++ (if (k_entry c <=? 1) && negb ((k_dim c =? 2) || (k_dim c =? 3)) then [code_disc CBadDimension] else [])
  ++ (if geo && negb (ty_eqb (dtype (k_points c)) TDouble) then [code_disc CBadType] else [])   (* points must be double *)
  ++ (if (k_entry c =? 2) && negb (ty_eqb (dtype (k_weights c)) TDouble) then [code_disc CBadType] else [])
  ++ (if is_fm c && negb (ty_eqb (a_type (k_adj c)) TInt64) then [code_disc CBadType] else []).

Definition prop17 (c : case17) : bool :=
  match k_c c with
  | CAbort => false                        (* a panic crossed the boundary, or the process died *)
  | CHang => match k_ref c with Some r => match r_res r with RRHang => true | _ => false end | None => false end
  | CRet code arr =>
    match argument_errors c with
    | (_ :: _) as acc =>
      existsb (N.eqb code) acc && list_eqb N.eqb arr (k_p0 c)
    | [] =>
      match k_ref c with
      | None => false                      (* harness inconsistency: no reference and no documented argument error *)
      | Some r =>
        match r_res r with
        | RROk rarr => (code =? 0) && (if is_fm c then fm_ok_shape c arr else list_eqb N.eqb arr rarr)
        | RRErr e rarr =>
          match documented_code e with
          | Some d => (code =? code_disc d) && list_eqb N.eqb arr rarr
          | None =>  (* Hilbert's InvalidOrder: coupe.h only promises "an error" *)
            negb (code =? 0) && negb (code =? code_disc CCrash) && list_eqb N.eqb arr rarr
          end
        | RRPanic => code =? code_disc CCrash
        | RRHang => true
        end
      end
    end
  end.

(* Large data sets (k_entry = 10 + entry; 4095 .. 10000 elements): the data stay in the harness, which compares
   the C array with the Rust API's array itself; the case carries k_params = [n; representation and tag of the
   points; representation and tag of the weights; verdict (1 = arrays equal, or for fiduccia_mattheyses the
   deterministic shape holds); first differing index + 1 (0 = none); number of differing cells; digest of the
   Rust array; digest of the C array].  Judged here: the code is the documented one for the Rust result and the
   harness's comparison succeeded.  The model is not evaluated on these cases (corr_ok = prop_ok). *)
Definition is_large (c : case17) : bool := 10 <=? k_entry c.
Definition prop_large (c : case17) : bool :=
  let prm i := nth_opt (k_params c) i in
  let same := match prm 5%nat, prm 6%nat, prm 8%nat, prm 9%nat with
              | Some v, Some d, Some h1, Some h2 => (v =? 1) && (d =? 0) && ((k_entry c =? 16) || (h1 =? h2))
              | _, _, _, _ => false end in
  match k_c c, k_ref c with
  | CRet code _, Some r =>
    match r_res r with
    | RROk _ => (code =? 0) && same
    | RRErr e _ =>
      match documented_code e with
      | Some d => (code =? code_disc d) && same
      | None => negb (code =? 0) && negb (code =? code_disc CCrash) && same
      end
    | RRPanic => code =? code_disc CCrash
    | RRHang => true
    end
  | _, _ => false
  end.

Definition eval17 (c : case17) : verdict :=
  let cls := match k_c c with CRet code _ => code | CAbort => 20 | CHang => 21 end in
  if is_large c then {| corr_ok := prop_large c; prop_ok := prop_large c; cls := cls |}
  else {| corr_ok := corr17 c; prop_ok := prop17 c; cls := cls |}.

Definition run17 (cs : list case17) := report (map eval17 cs).

(* Evaluation of C19 correspondence cases.  For a write+read case the harness
   gives the value, the bytes the implementation wrote (None = it panicked)
   and what the implementation read back from those bytes; for a read-only
   case (malformed / foreign files) the bytes and what the implementation read.
     corr_ok : the model's encoder emits the same bytes, and the model's
               reader maps the implementation's bytes to what the
               implementation read;
     prop_ok : inside the contract, the implementation read back exactly the
               (normalised) value it wrote.
   Depends on the models only (not on the proofs). *)
From Coq Require Import Uint63.
From Coupe Require Import Lib.Prelude Lib.Report Model.Formats Model.MeditTypes Gen.MeditGen Model.Medit.
Open Scope N_scope.

(* Bytes in case files: packed 7 per primitive 63-bit integer, little endian,
   with the total length (coqc reads this much faster than a [list N] literal). *)
Definition pbytes := (N * list int)%type.
Definition unpack (p : pbytes) : list N :=
  firstn (N.to_nat (fst p)) (flat_map (fun w => le_enc 7 (Z.to_N (Uint63.to_Z w))) (snd p)).

(* what the implementation's reader returned; error codes:
   0 BadHeader 1 UnsupportedVersion 2 Io 3 UnexpectedToken 4 BadInteger 5 BadFloat 6 UnknownFormat *)
Inductive ires (A : Type) :=
| IROk (a : A)
| IRErr (code : N)
| IRPanic
| IRHang.
Arguments IROk {A} a.
Arguments IRErr {A} code.
Arguments IRPanic {A}.
Arguments IRHang {A}.

Definition ferr_code (e : ferr) : N :=
  match e with
  | EBadHeader => 0 | EUnsupportedVersion => 1 | EIo => 2
  | EUnexpectedToken => 3 | EBadInteger => 4 | EBadFloat => 5 | EUnknownFormat => 6
  end.

Definition read_matches {A} (eqb : A -> A -> bool) (r : fres A) (i : ires A) : bool :=
  match r, i with
  | FOk a, IROk b => eqb a b
  | FErr e, IRErr c => ferr_code e =? c
  | FPanic _, IRPanic => true
  | _, _ => false
  end.

Definition write_matches (r : fres (list N)) (i : option pbytes) : bool :=
  match r, i with
  | FOk a, Some b => bytes_eqb a (unpack b)
  | FPanic _, None => true
  | _, _ => false
  end.

Definition ires_class {A} (i : ires A) : N :=
  match i with IROk _ => 0 | IRErr _ => 1 | IRPanic => 2 | IRHang => 3 end.

Definition is_ok_of {A} (eqb : A -> A -> bool) (x : A) (i : ires A) : bool :=
  match i with IROk y => eqb x y | _ => false end.

(* boolean form of Formats.wf_rows (without the bound every in-memory array satisfies) *)
Definition wf_rowsb {T} (rows : list (list T)) : bool :=
  match rows with
  | [] => false      (* the empty array: no criterion count; see docs/C19.md *)
  | first :: _ =>
    let c := N.of_nat (length first) in
    (1 <=? c) && (c <? 65536) && forallb (fun r => Nat.eqb (length r) (length first)) rows
  end.
Definition warray_in_contract (a : warray) : bool :=
  match a with
  | WInts r => wf_rowsb r
  | WFloats r => wf_rowsb r
  end.
(* the empty arrays: Integers([]) must come back as such; Floats([]) is
   outside the property as read here (it comes back as Integers([])) *)
Definition warray_is_empty_ints (a : warray) : bool :=
  match a with WInts [] => true | _ => false end.

Inductive case19 :=
| KPart (ids : list N) (wbytes : option pbytes) (rback : ires (list N))
| KPartRead (bytes : pbytes) (r : ires (list N))
| KWeights (a : warray) (wbytes : option pbytes) (rback : ires warray)
| KWeightsRead (bytes : pbytes) (r : ires warray)
(* MEDIT: written by serialize_medit_binary / display_medit_ascii, read back by Mesh::from_reader
   (format detected).  Rust std's float printing/parsing enters as data, computed by the harness
   from std alone, independently of mesh-io: [pt] = for every coordinate x, (x, format!("{}", x),
   what that text parses to); [rt] = every word of the WRITTEN FILE that FromStr for f64 accepts,
   with its value (used by the model's reader on the implementation's bytes) *)
| KMeditBin (m : mesh) (wbytes : option pbytes) (rback : ires mesh)
| KMeditAscii (m : mesh) (pt : list (N * pbytes * option N)) (rt : list (pbytes * N)) (wbytes : option pbytes) (rback : ires mesh)
(* reader 0 = parse_binary, 1 = parse_ascii, 2 = from_reader *)
| KMeditRead (reader : N) (rt : list (pbytes * N)) (bytes : pbytes) (r : ires mesh)
| KSniff (bytes : pbytes) (bin : bool) (asc : ires bool)
(* header-field boundaries (criterion counts around 2^8, 2^12, 2^13, 2^14, 2^15, 2^16; row counts
   and id counts around 2^16): the values are NOT in the case file but given by the formula
   [gen_val] of (seed, row, column), evaluated identically by the harness and here; the
   implementation's outputs come as (length, digest) of the bytes it wrote and (variant, row
   lengths, digest of all values) of what it read back.  The judgement stays here. *)
| KWeightsBig (is_int : bool) (crit rows seed : N) (wsum : option (N * N)) (rback : ires (bool * list N * N))
| KPartBig (n seed : N) (wsum : option (N * N)) (rback : ires (N * N))
(* a mesh given by formula: [n] nodes in dimension [dim], a Triangle block of one element, then an
   Edge block of [e] elements; node / element counts around 2^16.  ascii = true: written by
   display_medit_ascii, coordinates drawn from the 8-entry table [coord_tab] (std's text and its
   parse for these 8 values are [pt]); false: serialize_medit_binary, arbitrary bit patterns.
   Read back by Mesh::from_reader; summaries = (dimension, #nodes, #elements, digest of everything) *)
| KMeditBig (ascii : bool) (dim n e seed : N) (pt : list (N * pbytes * option N))
            (wsum : option (N * N)) (rback : ires (N * N * N * N)).

(* ---- formula-generated values and digests (mirrored in harness/src/bin/c19.rs) ---- *)

Definition mask64 : N := 18446744073709551615.
Definition gen_specials : list N :=
  [0; 9223372036854775808; 9218868437227405312; 18442240474082181120; 9221120237041090560;
   9218868437227405313; 9218868437227405311; 1].
(* an arbitrary 64-bit pattern; one in sixteen is a special float pattern / extreme integer *)
Definition gen_val (seed r c : N) : N :=
  (* multiplications recurse on their FIRST operand: keep the small one first *)
  let v0 := N.land (seed + r * 11400714819323198485 + c * 13787848793156543929) mask64 in
  let v := N.lxor v0 (N.shiftr v0 31) in
  if N.shiftr v 60 =? 0 then nth (N.to_nat (N.land v 7)) gen_specials 0 else v.
Fixpoint gen_row (seed r : N) (n : nat) (j : N) : list N :=
  match n with O => [] | S k => gen_val seed r j :: gen_row seed r k (j + 1) end.
Fixpoint gen_rows (seed : N) (c n : nat) (r : N) : list (list N) :=
  match n with O => [] | S k => gen_row seed r c 0 :: gen_rows seed c k (r + 1) end.

(* an order-sensitive running digest with shifts and additions only (64-bit multiplications are
   slow under vm_compute): h' = (h << 5) + (h >> 2) + h + x + 1  mod 2^64 *)
Definition dstep (h x : N) : N := N.land (N.shiftl h 5 + N.shiftr h 2 + h + x + 1) mask64.
Definition dinit : N := 14695981039346656037.
(* digest of a byte string, eight bytes at a time (little endian), then the tail *)
Fixpoint digest_bytes (h : N) (l : list N) : N :=
  match l with
  | a :: b :: c :: d :: e :: f :: g :: i :: t => digest_bytes (dstep h (le_dec [a; b; c; d; e; f; g; i])) t
  | rest => fold_left dstep rest h
  end.
Definition digest_vals (l : list N) : N := fold_left dstep l dinit.
Definition bytes_sum (b : list N) : N * N := (N.of_nat (length b), digest_bytes dinit b).

(* `z as u64`, without a division *)
Definition zbits (z : Z) : N := if (z <? 0)%Z then Z.to_N (z + 18446744073709551616) else Z.to_N z.

Definition warray_sum (a : warray) : bool * list N * N :=
  match a with
  | WInts r => (true, map (fun x => N.of_nat (length x)) r, digest_vals (map zbits (concat r)))
  | WFloats r => (false, map (fun x => N.of_nat (length x)) r, digest_vals (concat r))
  end.
Definition wsum_eqb (a b : bool * list N * N) : bool :=
  Bool.eqb (fst (fst a)) (fst (fst b)) && leqb N.eqb (snd (fst a)) (snd (fst b)) && (snd a =? snd b).
Definition sum_eqb (a b : N * N) : bool := (fst a =? fst b) && (snd a =? snd b).

Definition wsum_matches (r : fres (list N)) (i : option (N * N)) : bool :=
  match r, i with
  | FOk b, Some s => sum_eqb (bytes_sum b) s
  | FPanic _, None => true
  | _, _ => false
  end.
Definition fres_map {A B} (f : A -> B) (r : fres A) : fres B :=
  match r with FOk a => FOk (f a) | FErr e => FErr e | FPanic p => FPanic p | FOutOfFuel => FOutOfFuel end.

Definition tab_print (pt : list (N * list N)) (x : N) : list N :=
  match find (fun e => fst e =? x) pt with Some e => snd e | None => [] end.
Definition tab_parse (rt : list (list N * N)) (w : list N) : option N :=
  match find (fun e => bytes_eqb (fst e) w) rt with Some e => Some (snd e) | None => None end.

Definition has_ty (t : etype) (m : mesh) : bool := existsb (fun b => etype_eqb (b_ty b) t) (m_topo m).

(* node numbers the writers can increment (debug profile: `node + 1` is checked) *)
Definition nodes_below (bound : N) (m : mesh) : bool :=
  forallb (fun b => forallb (fun n => n <? bound) (b_nodes b)) (m_topo m).

Definition sniff_matches (buf : list N) (bin : bool) (asc : ires bool) : bool :=
  Bool.eqb (test_format_binary buf) bin && read_matches Bool.eqb (test_format_ascii buf) asc.

(* ---- formula-generated meshes ---- *)

(* 0.0, -0.0, 1.0, -1.5, 0.1, 1e15, 0.000025, 2^53 + 2 (short texts: the file stays ~2 MB) *)
Definition coord_tab : list N :=
  [0; 9223372036854775808; 4607182418800017408; 13832806255468478464; 4591870180066957722;
   4831355200913801216; 4537999922764202797; 4845873199050653697].
Fixpoint gen_seq {A} (f : N -> A) (n : nat) (j : N) : list A :=
  match n with O => [] | S k => f j :: gen_seq f k (j + 1) end.
Definition gen_mesh (tab : bool) (dim n e seed : N) : mesh :=
  let nmask := if 65536 <=? n then 65535 else 3 in       (* node numbers below n (n >= 4) *)
  let coord i := let v := gen_val seed 0 i in if tab then nth (N.to_nat (N.land v 7)) coord_tab 0 else v in
  mkmesh dim
    (gen_seq coord (N.to_nat (dim * n)) 0)
    (gen_seq (fun i => of_bits 64 (gen_val seed 1 i)) (N.to_nat n) 0)
    [mkblock Triangle [0; 1; 2] [of_bits 64 (gen_val seed 4 0)];
     mkblock Edge (gen_seq (fun k => N.land (gen_val seed 2 k) nmask) (N.to_nat (2 * e)) 0)
                  (gen_seq (fun k => of_bits 64 (gen_val seed 3 k)) (N.to_nat e) 0)].

Definition ty_idx (t : etype) : N :=
  match t with Vertex => 0 | Edge => 1 | Triangle => 2 | Quadrangle => 3 | Quadrilateral => 4
             | Tetrahedron => 5 | Hexahedron => 6 end.
Definition lenN {A} (l : list A) : N := N.of_nat (length l).
Definition mesh_vals (m : mesh) : list N :=
  [m_dim m; lenN (m_coords m)] ++ m_coords m ++ [lenN (m_nrefs m)] ++ map zbits (m_nrefs m)
  ++ [lenN (m_topo m)]
  ++ flat_map (fun b => [ty_idx (b_ty b); lenN (b_nodes b)] ++ b_nodes b
                        ++ [lenN (b_refs b)] ++ map zbits (b_refs b)) (m_topo m).
Definition mesh_sum (m : mesh) : N * N * N * N :=
  (m_dim m, lenN (m_nrefs m), fold_left (fun a b => a + lenN (b_refs b)) (m_topo m) 0,
   digest_vals (mesh_vals m)).
Definition sum4_eqb (a b : N * N * N * N) : bool :=
  match a, b with (a1, a2, a3, a4), (b1, b2, b3, b4) => (a1 =? b1) && (a2 =? b2) && (a3 =? b3) && (a4 =? b4) end.

Definition eval19 (c : case19) : verdict :=
  match c with
  | KPart ids wb rb =>
    {| corr_ok := write_matches (FOk (write_partition ids)) wb
                  && match wb with
                     | Some b => read_matches (leqb N.eqb) (read_partition (unpack b)) rb
                     | None => true
                     end;
       prop_ok := is_ok_of (leqb N.eqb) ids rb;
       cls := 0 + ires_class rb |}
  | KPartRead b r =>
    {| corr_ok := read_matches (leqb N.eqb) (read_partition (unpack b)) r;
       prop_ok := true;
       cls := 10 + ires_class r |}
  | KWeights a wb rb =>
    {| corr_ok := write_matches (write_weights a) wb
                  && match wb with
                     | Some b => read_matches warray_eqb (read_weights (unpack b)) rb
                     | None => true
                     end;
       prop_ok := if warray_in_contract a || warray_is_empty_ints a
                  then is_ok_of warray_eqb a rb else true;
       cls := (if warray_in_contract a then 20 else 30) + ires_class rb |}
  | KWeightsRead b r =>
    {| corr_ok := read_matches warray_eqb (read_weights (unpack b)) r;
       prop_ok := true;
       cls := 40 + ires_class r |}
  | KMeditBin m wb rb =>
    let dummy_print (_ : N) : list N := [] in
    let dummy_parse (_ : list N) : option N := None in
    (* inside the property: blocks of the property's list only (a Vertex block is dropped,
       a Quadrangle block comes back as Quadrilateral: compared through the model only) *)
    let inq := negb (has_ty Vertex m) && negb (has_ty Quadrangle m) && nodes_below (2 ^ 63 - 1) m in
    {| corr_ok := write_matches (serialize_binary m) wb
                  && match wb with
                     | Some b => read_matches mesh_eqb (from_reader dummy_parse (unpack b)) rb
                     | None => true
                     end;
       prop_ok := if inq then is_ok_of mesh_eqb m rb else true;
       cls := (if inq then 50 else 60) + ires_class rb |}
  | KMeditAscii m pt rt wb rb =>
    let pt' := map (fun e => (fst (fst e), unpack (snd (fst e)))) pt in
    let rt' := map (fun e => (unpack (fst e), snd e)) rt in
    (* the hypothesis of medit_ascii_roundtrip, about std alone: the text std prints for the
       coordinate is a word and std parses it back to the same bits (false for NaN payloads) *)
    let floats_ok := forallb (fun e => word_okb (unpack (snd (fst e)))
                                       && match snd e with Some y => y =? fst (fst e) | None => false end) pt in
    let inq := negb (has_ty Vertex m) && floats_ok && nodes_below (2 ^ 64 - 1) m in
    (* the coordinate tokens the implementation wrote, cut out by the model's parser and valued by
       std, are the coordinates of the mesh *)
    let written_coords_ok :=
      match wb with
      | Some b =>
        match parse_ascii (tab_parse rt') (unpack b) with
        | FOk m' => leqb N.eqb (m_coords m') (m_coords m)
        | _ => false
        end
      | None => false
      end in
    {| corr_ok := write_matches (serialize_ascii (tab_print pt') m) wb
                  && match wb with
                     | Some b => read_matches mesh_eqb (from_reader (tab_parse rt') (unpack b)) rb
                     | None => true
                     end;
       prop_ok := if inq then is_ok_of mesh_eqb m rb && written_coords_ok else true;
       cls := (if inq then 70 else 80) + ires_class rb |}
  | KMeditRead which rt b r =>
    let rt' := map (fun e => (unpack (fst e), snd e)) rt in
    let s := unpack b in
    let model := if which =? 0 then parse_binary s
                 else if which =? 1 then parse_ascii (tab_parse rt') s
                 else from_reader (tab_parse rt') s in
    {| corr_ok := read_matches mesh_eqb model r;
       prop_ok := true;
       cls := 90 + 4 * which + ires_class r |}
  | KWeightsBig is_int crit rows seed ws rb =>
    let vals := gen_rows seed (N.to_nat crit) (N.to_nat rows) 0 in
    let a := if is_int then WInts (map (map (of_bits 64)) vals) else WFloats vals in
    let mw := write_weights a in
    (* what the property demands of the read-back: the variant, [rows] rows of exactly [crit]
       values each, and the values themselves (by digest) *)
    let expected := (is_int, repeat crit (N.to_nat rows), digest_vals (concat vals)) in
    let inq := (1 <=? crit) && (crit <? 65536) && (1 <=? rows) in
    {| corr_ok := wsum_matches mw ws
                  && match mw with
                     | FOk b => read_matches wsum_eqb (fres_map warray_sum (read_weights b)) rb
                     | _ => true
                     end;
       prop_ok := if inq then is_ok_of wsum_eqb expected rb else true;
       cls := (if inq then 120 else 124) + ires_class rb |}
  | KPartBig n seed ws rb =>
    let ids := gen_row seed 0 (N.to_nat n) 0 in
    let b := write_partition ids in
    {| corr_ok := wsum_matches (FOk b) ws
                  && read_matches sum_eqb
                       (fres_map (fun l => (N.of_nat (length l), digest_vals l)) (read_partition b)) rb;
       prop_ok := is_ok_of sum_eqb (n, digest_vals ids) rb;
       cls := 128 + ires_class rb |}
  | KMeditBig ascii dim n e seed pt ws rb =>
    let pt' := map (fun x => (fst (fst x), unpack (snd (fst x)))) pt in
    (* parse table: exactly std's texts of the 8 table values *)
    let rt' := flat_map (fun x => match snd x with Some y => [(unpack (snd (fst x)), y)] | None => [] end) pt in
    let m := gen_mesh ascii dim n e seed in
    let floats_ok := forallb (fun x => word_okb (unpack (snd (fst x)))
                                       && match snd x with Some y => y =? fst (fst x) | None => false end) pt
                     && forallb (fun c => existsb (fun x => fst (fst x) =? c) pt) coord_tab in
    let mw := if ascii then serialize_ascii (tab_print pt') m else serialize_binary m in
    let inq := (negb ascii || floats_ok) && (1 <=? dim) && (4 <=? n) in
    {| corr_ok := wsum_matches mw ws
                  && match mw with
                     | FOk b => read_matches sum4_eqb (fres_map mesh_sum (from_reader (tab_parse rt') b)) rb
                     | _ => true
                     end;
       prop_ok := if inq then is_ok_of sum4_eqb (mesh_sum m) rb else true;
       cls := (if ascii then 136 else 132) + ires_class rb |}
  | KSniff b bin asc =>
    {| corr_ok := sniff_matches (unpack b) bin asc;
       prop_ok := true;
       cls := 110 + (if bin then 4 else 0) + match asc with IROk true => 1 | IROk false => 0 | _ => 2 end |}
  end.

Definition run19 (cs : list case19) := report (map eval19 cs).

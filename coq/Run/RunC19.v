(* Evaluation of C19 correspondence cases.  For a write+read case the harness
   gives the value, the bytes the implementation wrote (None = it panicked)
   and what the implementation read back from those bytes; for a read-only
   case (malformed / foreign files) the bytes and what the implementation read.
     corr_ok : the model's encoder emits the same bytes, and the model's
               reader maps the implementation's bytes to what the
               implementation read;
     prop_ok : inside the contract, the implementation read back exactly the
               (normalised) value it wrote.
   Depends on the models only (not on the proofs). *)
From Coq Require Import Uint63.
From Coupe Require Import Lib.Prelude Lib.Report Model.Formats.
Open Scope N_scope.

(* Bytes in case files: packed 7 per primitive 63-bit integer, little endian,
   with the total length (coqc reads this much faster than a [list N] literal). *)
Definition pbytes := (N * list int)%type.
Definition unpack (p : pbytes) : list N :=
  firstn (N.to_nat (fst p)) (flat_map (fun w => le_enc 7 (Z.to_N (Uint63.to_Z w))) (snd p)).

(* what the implementation's reader returned; error codes:
   0 BadHeader 1 UnsupportedVersion 2 Io 3 UnexpectedToken 4 BadInteger 5 BadFloat 6 UnknownFormat *)
Inductive ires (A : Type) :=
| IROk (a : A)
| IRErr (code : N)
| IRPanic
| IRHang.
Arguments IROk {A} a.
Arguments IRErr {A} code.
Arguments IRPanic {A}.
Arguments IRHang {A}.

Definition ferr_code (e : ferr) : N :=
  match e with
  | EBadHeader => 0 | EUnsupportedVersion => 1 | EIo => 2
  | EUnexpectedToken => 3 | EBadInteger => 4 | EBadFloat => 5 | EUnknownFormat => 6
  end.

Definition read_matches {A} (eqb : A -> A -> bool) (r : fres A) (i : ires A) : bool :=
  match r, i with
  | FOk a, IROk b => eqb a b
  | FErr e, IRErr c => ferr_code e =? c
  | FPanic _, IRPanic => true
  | _, _ => false
  end.

Definition write_matches (r : fres (list N)) (i : option pbytes) : bool :=
  match r, i with
  | FOk a, Some b => bytes_eqb a (unpack b)
  | FPanic _, None => true
  | _, _ => false
  end.

Definition ires_class {A} (i : ires A) : N :=
  match i with IROk _ => 0 | IRErr _ => 1 | IRPanic => 2 | IRHang => 3 end.

Definition is_ok_of {A} (eqb : A -> A -> bool) (x : A) (i : ires A) : bool :=
  match i with IROk y => eqb x y | _ => false end.

(* boolean form of Formats.wf_rows (without the bound every in-memory array satisfies) *)
Definition wf_rowsb {T} (rows : list (list T)) : bool :=
  match rows with
  | [] => false      (* the empty array: no criterion count; see docs/C19.md *)
  | first :: _ =>
    let c := N.of_nat (length first) in
    (1 <=? c) && (c <? 65536) && forallb (fun r => Nat.eqb (length r) (length first)) rows
  end.
Definition warray_in_contract (a : warray) : bool :=
  match a with
  | WInts r => wf_rowsb r
  | WFloats r => wf_rowsb r
  end.
(* the empty arrays: Integers([]) must come back as such; Floats([]) is
   outside the property as read here (it comes back as Integers([])) *)
Definition warray_is_empty_ints (a : warray) : bool :=
  match a with WInts [] => true | _ => false end.

Inductive case19 :=
| KPart (ids : list N) (wbytes : option pbytes) (rback : ires (list N))
| KPartRead (bytes : pbytes) (r : ires (list N))
| KWeights (a : warray) (wbytes : option pbytes) (rback : ires warray)
| KWeightsRead (bytes : pbytes) (r : ires warray).

Definition eval19 (c : case19) : verdict :=
  match c with
  | KPart ids wb rb =>
    {| corr_ok := write_matches (FOk (write_partition ids)) wb
                  && match wb with
                     | Some b => read_matches (leqb N.eqb) (read_partition (unpack b)) rb
                     | None => true
                     end;
       prop_ok := is_ok_of (leqb N.eqb) ids rb;
       cls := 0 + ires_class rb |}
  | KPartRead b r =>
    {| corr_ok := read_matches (leqb N.eqb) (read_partition (unpack b)) r;
       prop_ok := true;
       cls := 10 + ires_class r |}
  | KWeights a wb rb =>
    {| corr_ok := write_matches (write_weights a) wb
                  && match wb with
                     | Some b => read_matches warray_eqb (read_weights (unpack b)) rb
                     | None => true
                     end;
       prop_ok := if warray_in_contract a || warray_is_empty_ints a
                  then is_ok_of warray_eqb a rb else true;
       cls := (if warray_in_contract a then 20 else 30) + ires_class rb |}
  | KWeightsRead b r =>
    {| corr_ok := read_matches warray_eqb (read_weights (unpack b)) r;
       prop_ok := true;
       cls := 40 + ires_class r |}
  end.

Definition run19 (cs : list case19) := report (map eval19 cs).

(* Evaluation of C18 correspondence cases: the model of `dual`, `barycentres`
   (count) and `used_element_count` against what the implementation returned,
   and the certified checker on the implementation's outputs.  Depends on the
   model and the generated tables only (not on the proofs). *)
From Coupe Require Import Lib.Prelude Lib.Report Gen.MeshTables Model.Dual.

(* what was observed of one call *)
Inductive obs (A : Type) := OOk (a : A) | OPanic | OHang.
Arguments OOk {A} a.
Arguments OPanic {A}.
Arguments OHang {A}.

(* the harness writes [o1] for the bit pattern of 1.0 (parsing a 19-digit literal per matrix
   entry dominated the evaluation time); any other value is written as its literal *)
Definition o1 : N := 4607182418800017408.

Record case18 := mk18 { c_mesh : mesh; c_dual : obs csr; c_bary : obs nat; c_used : obs nat }.

Definition csr_eqb (a b : csr) : bool :=
  (g_rows a =? g_rows b) && (g_cols a =? g_cols b)
  && list_nat_eqb (g_indptr a) (g_indptr b)
  && list_nat_eqb (g_indices a) (g_indices b)
  && list_eqb N.eqb (g_data a) (g_data b).

Definition obs_matches {A} (eqb : A -> A -> bool) (r : res A) (o : obs A) : bool :=
  match r, o with
  | Ok a, OOk b => eqb a b
  | Panic _, OPanic => true
  | _, _ => false
  end.

Definition eval18 (c : case18) : verdict :=
  let m := c_mesh c in
  let checked :=
    match c_dual c, c_bary c, c_used c with
    | OOk g, OOk nb, OOk nu => check_C18 m g nb nu
    | _, _, _ => false
    end in
  (* large meshes of the contract (high-valence families): the checker's verdict is the
     correspondence -- Properties/C18.v, C18_checker_implies_model / C18_model_passes_checker /
     C18_dual_total: check = true <-> the three observations are the model's outputs *)
  let large :=
    wf_mesh m && match max_dimension (m_topology m) with
                 | Some dim => 64 <? length (spec_elements dim (m_topology m))
                 | None => false
                 end in
  let corr :=
    if large then checked
    else
    obs_matches csr_eqb (dual m) (c_dual c)
    && obs_matches Nat.eqb (barycentre_count m) (c_bary c)
    && obs_matches Nat.eqb (used_element_count m) (c_used c) in
  (* panic or hang inside the contract: checked = false; outside the 2-D/3-D, distinct-node quantifier: true *)
  let prop := if wf_mesh m then checked else true in
  let cls : N :=
    match max_dimension (m_topology m) with
    | None => 2%N
    | Some dim =>
      if negb (nodes_in_range (m_node_count m) (m_topology m)) then 3%N
      else if dim =? 1 then 1%N
      else if dim =? 0 then 2%N
      else if wf_mesh m then 0%N else 4%N
    end in
  {| corr_ok := corr; prop_ok := prop; cls := cls |}.

Definition run18 (cs : list case18) := report (map eval18 cs).

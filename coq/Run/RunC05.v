(* Evaluation of C05 correspondence cases: the recorded access trace of the
   implementation under the controlled scheduler is replayed through the
   machine of Model/ArcSwap.v (every event must be the enabled next access of
   its task and carry the same value; final state = implementation's result),
   and the certified checker judges the implementation's output and trace.
   Depends on the model only (not on the proofs). *)
From Coupe Require Import Lib.Prelude Lib.SFloat Lib.Report Model.ArcSwap Model.ArcSwapF64 Gen.ArcSwapGen.
Open Scope Z_scope.

Record case05 := mk05 {
  c_rows : graph; c_vw : list Z; c_p0 : list nat; c_threads : nat;
  c_mi : option N;                 (* max_imbalance as f64 bits *)
  c_trace : list N;                (* encoded access events, global order *)
  c_impl : impl_res;               (* final part ids *)
  c_md : list Z;                   (* Metadata: gain, passes, attempts, moves, races, locked, no_gain, bad_balance, per_thread *)
  c_wk : N                         (* 0: i64 vertex weights = c_vw; 1: f64 vertex weights (c_vw times a fraction), outputs only;
                                      2: f64 vertex weights with exact sums, c_vw = their bit patterns, replayed *)
}.

Definition eval05i (c : case05) : verdict :=
  let g := c_rows c in
  let n := length (c_p0 c) in
  let k := part_count (c_p0 c) in
  let '(ipt, tc) := work_share n (c_threads c) in
  let mi := option_map (fun b => f64_of_bits b) (c_mi c) in
  let cap := cap_of mi (loads (c_vw c) (c_p0 c) k) k in
  let in_contract :=
    Nat.ltb 0 n && Nat.eqb (length g) n && Nat.eqb (length (c_vw c)) n && Nat.leb 1 (c_threads c)
    && graph_okb g && forallb (fun w => 0 <=? w) (c_vw c) in
  let tr := decode_trace (c_trace c) in
  let md i := nth i (c_md c) (-1) in
  let f64w := (c_wk c =? 1)%N in
  let prop :=
    if in_contract && f64w then
      (* f64 vertex weights: the machine (integer weights) is not run; the weight-independent
         clauses are checked on the implementation's output and trace *)
      match tr, c_impl c with
      | Some evs, IOk p =>
          let o := mkOut (map N.to_nat p) (md 0%nat) (md 3%nat) in
          check_valid n k (o_part o) && check_accounting g (c_p0 c) o && check_moves (c_p0 c) o
          && trace_mutex g (repeat TIdle tc) evs
      | _, _ => false
      end
    else if in_contract then
      match cap, tr, c_impl c with
      | Some cp, Some evs, IOk p =>
          check_C05 g (c_vw c) (c_p0 c) cp tc evs (mkOut (map N.to_nat p) (md 0%nat) (md 3%nat))
      | None, _, _ => true          (* the cap does not convert to the weight type: outside the contract *)
      | _, _, _ => false            (* panic / hang inside the contract, or an undecodable trace *)
      end
    else true in
  (* correspondence: the machine, started as arc_swap starts, accepts every recorded event and
     ends (outer loop left) in the implementation's final partition and Metadata.  The machine runs
     with the share in the form the translator read from the source ([share_i64_run]: the exact quotient
     when the code divides in W; the f64 round trip, rejected where it is not the exact quotient, otherwise) *)
  let corr :=
    if f64w then true else
    match c_impl c, cap, tr with
    | IOk p, Some cp, Some evs =>
      let cf := config_of (share_i64_run arcswap_share_in_W) g (c_vw c) (c_p0 c) (c_threads c) cp in
      match init_state cf (c_p0 c) with
      | None => false
      | Some st0 =>
        match replay cf st0 evs with
        | None => false
        | Some st =>
          g_fin st && list_eqb Nat.eqb (g_part st) (map N.to_nat p)
          && list_eqb Z.eqb (md_list (g_md st) ++ [Z.of_nat ipt]) (c_md c)
          && list_eqb Z.eqb (g_pw st) (loads (c_vw c) (g_part st) k)
        end
      end
    | IOk _, _, _ => false
    | _, _, _ => true
    end in
  let cls :=
    match c_impl c with
    | IOk _ => if negb in_contract then 4%N else if f64w then (if 0 <? md 3%nat then 7%N else 6%N)
               else if 0 <? md 3%nat then 1%N else 0%N
    | IPanic => 2%N | IHang => 3%N | IErr _ _ _ => 5%N
    end in
  {| corr_ok := corr; prop_ok := prop; cls := cls |}.

(* f64 vertex weights with exact sums (c_wk = 2): the recorded trace is replayed through the f64
   instance of the machine (wops_f64: every weight operation is the SpecFloat operation on the bit
   patterns); the checker judges the weight-independent clauses and, with f64 comparisons on the
   exactly summed loads, the caps *)
Definition eval05x (c : case05) : verdict :=
  let g := c_rows c in
  let n := length (c_p0 c) in
  let k := part_count (c_p0 c) in
  let '(ipt, tc) := work_share n (c_threads c) in
  let mi := option_map (fun b => f64_of_bits b) (c_mi c) in
  let ld p q := wload (W := wops_f64) (c_vw c) p q in
  let cap := cap_f64w mi (wloads (W := wops_f64) (c_vw c) (c_p0 c) k) k in
  let in_contract :=
    Nat.ltb 0 n && Nat.eqb (length g) n && Nat.eqb (length (c_vw c)) n && Nat.leb 1 (c_threads c)
    && graph_okb g
    && forallb (fun z => (0 <=? z) && is_finite (fz z) && negb (flt (fz z) (f64_of_Z 0))) (c_vw c) in
  let tr := decode_trace (c_trace c) in
  let md i := nth i (c_md c) (-1) in
  let prop :=
    if in_contract then
      match cap, tr, c_impl c with
      | Some cp, Some evs, IOk p =>
          let o := mkOut (map N.to_nat p) (md 0%nat) (md 3%nat) in
          check_valid n k (o_part o) && check_accounting g (c_p0 c) o && check_moves (c_p0 c) o
          && trace_mutex g (repeat TIdle tc) evs
          && forallb (fun q => let bound := if flt (fz (ld (c_p0 c) q)) (fz cp) then cp else ld (c_p0 c) q in
                               negb (flt (fz bound) (fz (ld (o_part o) q)))) (seq 0 k)
      | _, _, _ => false
      end
    else true in
  let corr :=
    match c_impl c, cap, tr with
    | IOk p, Some cp, Some evs =>
      let cf := config_of headroom_f64w g (c_vw c) (c_p0 c) (c_threads c) cp in
      match init_state (W := wops_f64) cf (c_p0 c) with
      | None => false
      | Some st0 =>
        match replay (W := wops_f64) cf st0 evs with
        | None => false
        | Some st =>
          g_fin st && list_eqb Nat.eqb (g_part st) (map N.to_nat p)
          && list_eqb Z.eqb (md_list (g_md st) ++ [Z.of_nat ipt]) (c_md c)
          && list_eqb Z.eqb (g_pw st) (wloads (W := wops_f64) (c_vw c) (g_part st) k)
        end
      end
    | IOk _, _, _ => false
    | _, _, _ => true
    end in
  let cls :=
    match c_impl c with
    | IOk _ => if negb in_contract then 4%N else if 0 <? md 3%nat then 9%N else 8%N
    | IPanic => 2%N | IHang => 3%N | IErr _ _ _ => 5%N
    end in
  {| corr_ok := corr; prop_ok := prop; cls := cls |}.

Definition eval05 (c : case05) : verdict := if (c_wk c =? 2)%N then eval05x c else eval05i c.

Definition run05 (cs : list case05) := report (map eval05 cs).

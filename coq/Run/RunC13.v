(* Evaluation of C13 correspondence cases: model vs implementation, and the
   certified checker on the implementation's output.  Depends on the model and
   the generated constants only (not on the proofs). *)
From Coupe Require Import Lib.Prelude Lib.SFloat Lib.Report Model.Ckk Gen.CkkGen.
Open Scope Z_scope.

Record case13 := mk13 { c_ws : list Z; c_tol : N; c_p0 : list N; c_impl : impl_res }.

Definition eval13 (c : case13) : verdict :=
  let tol := f64_of_bits (c_tol c) in
  let r := ckk ckk_sum_branch_separate (c_ws c) tol (c_p0 c) in
  let corr := res_matches r (c_impl c) in
  let in_contract :=
    forallb (fun w => 0 <=? w) (c_ws c) && Nat.eqb (length (c_ws c)) (length (c_p0 c))
    && negb (Nat.eqb (length (c_ws c)) 0) in
  let prop :=
    if in_contract then
      match tol_int (sumZ (c_ws c)) tol with
      | None => true                      (* tolerance does not convert: outside the contract *)
      | Some t =>
        match c_impl c with
        | IOk p => check_C13 (c_ws c) t (OOk p)
        | IErr 0 _ _ => check_C13 (c_ws c) t ONotFound
        | _ => false                      (* panic, hang or another error inside the contract *)
        end
      end
    else
      (* malformed stream (C20 clause): mismatch reported, nothing else *)
      match c_impl c with
      | IErr 1 a b => (a =? N.of_nat (length (c_p0 c)))%N && (b =? N.of_nat (length (c_ws c)))%N
      | IOk p => Nat.eqb (length (c_ws c)) 0 && Nat.eqb (length (c_p0 c)) 0
      | _ => false
      end in
  let cls := match c_impl c with IOk _ => 0 | IErr 0 _ _ => 1 | IErr _ _ _ => 2 | IPanic => 3 | IHang => 4 end%N in
  {| corr_ok := corr; prop_ok := prop; cls := cls |}.

Definition run13 (cs : list case13) := report (map eval13 cs).

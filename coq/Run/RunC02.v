(* C02 run glue: improving algorithms keep a valid partition valid.
   check_valid is exact for "same length, no id above the bound"
   (lemma in Proofs/C02Proofs.v). *)
From Coupe Require Import Lib.Prelude Lib.Report.

Record case02 := mk02 { b_alg : N; b_bound : N; b_len : nat; b_impl : impl_res }.

Definition check_valid (bound : N) (n : nat) (p : list N) : bool :=
  Nat.eqb (length p) n && forallb (fun x => (x <=? bound)%N) p.

Definition eval02 (c : case02) : verdict :=
  let prop :=
    match b_impl c with
    | IOk p => check_valid (b_bound c) (b_len c) p
    | _ => false          (* panic, hang, or an error on a valid input *)
    end in
  {| corr_ok := true; prop_ok := prop; cls := b_alg c |}.

Definition run02 (cs : list case02) := report (map eval02 cs).

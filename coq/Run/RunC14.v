(* Evaluation of C14 correspondence cases: model vs implementation, and the
   certified checker on the implementation's output.  Depends on the models
   only (not on the proofs). *)
From Coupe Require Import Lib.Prelude Lib.Report Model.NumPart Model.Vn.
Open Scope Z_scope.

(* c_alg: 0 = VnBest, 1 = VnFirst.  c_flt: the weights were passed as f64
   (integer-valued).  c_impl: IOk = the partition array after an Ok return;
   c_cnt: the returned move count; c_after: the array after the call when the
   call returned an error (must be the input array). *)
Record case14 := mk14 { c_alg : N; c_flt : bool; c_ws : list Z; c_p0 : list N;
                        c_impl : impl_res; c_cnt : N; c_after : list N }.

Definition eval14 (c : case14) : verdict :=
  let ws := c_ws c in let p0 := c_p0 c in
  let best := (c_alg c =? 0)%N in
  let r := if best then vn_best (c_flt c) ws p0 else vn_first ws p0 in
  let untouched := list_eqb N.eqb (c_after c) p0 in
  let corr :=
    match r, c_impl c with
    | Ok (p, n), IOk p' => list_eqb N.eqb p p' && (n =? c_cnt c)%N
    | Err e, IErr code a b => err_matches e code a b && untouched
    | Panic _, IPanic => true
    | _, _ => false
    end in
  let len_ok := Nat.eqb (length ws) (length p0) in
  let nonneg := forallb (fun w => 0 <=? w) ws in
  let prop :=
    if negb len_ok then
      (* C20 clause: the mismatch is reported and the array is untouched *)
      match c_impl c with
      | IErr 1 a b => (a =? N.of_nat (length p0))%N && (b =? N.of_nat (length ws))%N && untouched
      | _ => false
      end
    else if nonneg then
      match c_impl c with
      | IOk p' => check_vn ws p0 p'
      | _ => false                       (* error, panic or hang inside the contract *)
      end
    else if best then
      (* VnBest rejects negative weights, array untouched *)
      match c_impl c with
      | IErr 2 _ _ => untouched
      | _ => false
      end
    else true in                         (* VnFirst with a negative weight: outside the contract *)
  let cls := match c_impl c with
             | IOk p' => if list_eqb N.eqb p' p0 then 0 else 5
             | IErr 1 _ _ => 1 | IErr 2 _ _ => 2 | IErr _ _ _ => 6 | IPanic => 3 | IHang => 4 end%N in
  {| corr_ok := corr; prop_ok := prop; cls := cls |}.

Definition run14 (cs : list case14) := report (map eval14 cs).

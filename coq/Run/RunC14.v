(* Evaluation of C14 correspondence cases: model vs implementation, and the
   certified checker on the implementation's output.  Depends on the models
   only (not on the proofs). *)
From Coupe Require Import Lib.Prelude Lib.SFloat Lib.Report Model.NumPart Model.Vn Model.ArithW Model.VnW.
From Coq Require Import Floats.SpecFloat.
Open Scope Z_scope.

(* c_alg: 0 = VnBest, 1 = VnFirst.  c_flt: the weights were passed as f64
   (integer-valued).  c_impl: IOk = the partition array after an Ok return;
   c_cnt: the returned move count; c_after: the array after the call when the
   call returned an error (must be the input array). *)
Inductive case14 :=
| mk14 (c_alg : N) (c_flt : bool) (c_ws : list Z) (c_p0 : list N) (c_impl : impl_res) (c_cnt : N) (c_after : list N)
(* genuine binary64 weights (bit patterns); run on a rayon pool of one thread *)
| mk14f (c_alg : N) (c_wbits : list N) (c_p0 : list N) (c_impl : impl_res) (c_cnt : N) (c_after : list N)
(* LARGE input (thousands of weights), described by the parameters of a generator that the harness and
   [gen14] share; the output array is given by its difference from the input array (index, new id),
   indices increasing.  c_status: 0 = Ok, 2 = error, 3 = panic, 4 = hang.  Judged by the certified
   checker only (the model is not run on inputs of this size). *)
| mk14L (c_alg : N) (c_flt : bool) (c_n c_k c_t c_wmax c_mult c_seed c_mode : N)
        (c_status : N) (c_diff : list (N * N)).

Definition res2_eqb (a b : res (list N * N)) : bool :=
  match a, b with
  | Ok (p, n), Ok (q, m) => list_eqb N.eqb p q && (n =? m)%N
  | Err e, Err e' => match e, e' with
                     | InputLenMismatch x y, InputLenMismatch x' y' => Nat.eqb x x' && Nat.eqb y y'
                     | NegativeValues, NegativeValues => true
                     | _, _ => false end
  | Panic _, Panic _ => true
  | OutOfFuel, OutOfFuel => true
  | _, _ => false
  end.

(* turns granted to VnBest's `loop` in the generic model (no bound is known for floats) *)
Definition vb_fuel (n : nat) : nat := 1000 + 8 * n * n.

Definition f64_weight_ok (x : spec_float) : bool :=
  match x with
  | S754_zero _ => true
  | S754_finite s _ _ => negb s
  | _ => false
  end.

Definition eval14f (alg : N) (wbits : list N) (p0 : list N) (impl : impl_res) (cnt : N) (after : list N) : verdict :=
  let ws := map (fun b => f64_of_bits b) wbits in
  let best := (alg =? 0)%N in
  let r := if best then vn_bestW F64arith true (vb_fuel (length ws)) ws p0 else vn_firstW F64arith ws p0 in
  let untouched := list_eqb N.eqb after p0 in
  let corr :=
    match r, impl with
    | Ok (p, n), IOk p' => list_eqb N.eqb p p' && (n =? cnt)%N
    | Err e, IErr code a b => err_matches e code a b && untouched
    | Panic _, IPanic => true
    | OutOfFuel, IHang => true          (* the model predicts that the loop does not end *)
    | _, _ => false
    end in
  let len_ok := Nat.eqb (length ws) (length p0) in
  let chk := match impl with IOk p' => check_vn_f64 ws p0 p' | _ => None end in
  let prop :=
    if negb len_ok then
      match impl with
      | IErr 1 a b => (a =? N.of_nat (length p0))%N && (b =? N.of_nat (length ws))%N && untouched
      | _ => false
      end
    else if forallb f64_weight_ok ws then
      match chk with
      | Some (accepted, _) => accepted
      | None => false                    (* error, panic or HANG inside the contract *)
      end
    else if best then
      (* a negative weight: VnBest must answer NegativeValues; NaN / infinities: outside the contract *)
      if existsb (fun x => SFltb x (S754_zero false)) ws && forallb (fun x => negb (is_nan x)) ws then
        match impl with IErr 2 _ _ => untouched | _ => false end
      else true
    else true in
  let cls := match impl with
             | IOk _ => match chk with Some (_, true) => 7 | _ => 8 end
             | IErr 1 _ _ => 1 | IErr 2 _ _ => 2 | IErr _ _ _ => 6 | IPanic => 3 | IHang => 4 end%N in
  {| corr_ok := corr; prop_ok := prop; cls := cls |}.

Definition eval14i (c_alg : N) (c_flt : bool) (ws : list Z) (p0 : list N) (c_impl : impl_res) (c_cnt : N) (c_after : list N) : verdict :=
  let best := (c_alg =? 0)%N in
  let r := if best then vn_best c_flt ws p0 else vn_first ws p0 in
  (* the generic model at the integer arithmetic (i64 runs) / at binary64 on the same integers (f64 runs)
     is the integer model *)
  let rW :=
    if c_flt then
      let wf := map (fun z => f64_of_Z z) ws in
      if best then vn_bestW F64arith true (vb_fuel (length ws)) wf p0 else vn_firstW F64arith wf p0
    else if best then vn_bestW Zarith true (vb_fuel (length ws)) ws p0 else vn_firstW Zarith ws p0 in
  let untouched := list_eqb N.eqb c_after p0 in
  let corr :=
    match r, c_impl with
    | Ok (p, n), IOk p' => list_eqb N.eqb p p' && (n =? c_cnt)%N
    | Err e, IErr code a b => err_matches e code a b && untouched
    | Panic _, IPanic => true
    | _, _ => false
    end in
  let len_ok := Nat.eqb (length ws) (length p0) in
  let nonneg := forallb (fun w => 0 <=? w) ws in
  let prop :=
    if negb len_ok then
      (* C20 clause: the mismatch is reported and the array is untouched *)
      match c_impl with
      | IErr 1 a b => (a =? N.of_nat (length p0))%N && (b =? N.of_nat (length ws))%N && untouched
      | _ => false
      end
    else if nonneg then
      match c_impl with
      | IOk p' => check_vn ws p0 p'
      | _ => false                       (* error, panic or hang inside the contract *)
      end
    else if best then
      (* VnBest rejects negative weights, array untouched *)
      match c_impl with
      | IErr 2 _ _ => untouched
      | _ => false
      end
    else true in                         (* VnFirst with a negative weight: outside the contract *)
  let cls := match c_impl with
             | IOk p' => if list_eqb N.eqb p' p0 then 0 else 5
             | IErr 1 _ _ => 1 | IErr 2 _ _ => 2 | IErr _ _ _ => 6 | IPanic => 3 | IHang => 4 end%N in
  {| corr_ok := corr && res2_eqb rW r; prop_ok := prop; cls := cls |}.

(* ---- the large family ----
   x' = (x * 1103515245 + 12345) mod 2^31, r = x' / 2^16 (15 bits).
   element i: weight 1 + r mod wmax (times [mult] in the last [t] positions), then a part id:
   mode 0: r mod k everywhere;  mode 1: r mod (k-1) in the head, k-1 in the tail (all of the last
   part's weight sits in the tail);  mode 2: see below. *)
Definition lcg (x : N) : N := N.land (x * 1103515245 + 12345) 2147483647.
Definition gen14 (n k t wmax mult seed mode : N) : list Z * list N :=
  let step (st : N * N * list Z * list N) :=
    let '(x, i, ws, ps) := st in
    let x1 := lcg x in
    let tail := (n - t <=? i)%N in
    let w := (1 + (N.shiftr x1 16) mod wmax)%N in
    let w := if tail then (w * mult)%N else w in
    let x2 := lcg x1 in
    let r := N.shiftr x2 16 in
    let q := if (mode =? 0)%N then (r mod k)%N else if tail then (k - 1)%N else (r mod (k - 1))%N in
    (* mode 2 (many moves): element i < k is a heavy weight [mult] in part i; the next [t] elements are
       small weights all in part 0 (the surplus VnBest has to move away one by one); the rest are small
       weights in random parts *)
    let w := if (mode =? 2)%N then (if (i <? k)%N then mult else (1 + (N.shiftr x1 16) mod wmax)%N) else w in
    let q := if (mode =? 2)%N then (if (i <? k)%N then i else if (i <? k + t)%N then 0%N else (r mod k)%N) else q in
    (x2, (i + 1)%N, Z.of_N w :: ws, q :: ps) in
  let '(_, _, ws, ps) := N.iter n step (seed, 0%N, [], []) in
  (rev ws, rev ps).

Fixpoint patch (i : N) (p : list N) (d : list (N * N)) : list N :=
  match p with
  | [] => []
  | x :: t =>
    match d with
    | [] => p
    | (j, v) :: d' => if (j =? i)%N then v :: patch (i + 1) t d' else x :: patch (i + 1) t d
    end
  end.

Definition eval14L (n k t wmax mult seed mode status : N) (diff : list (N * N)) : verdict :=
  let '(ws, p0) := gen14 n k t wmax mult seed mode in
  let p' := patch 0 p0 diff in
  let prop := if (status =? 0)%N then check_vn ws p0 p' else false in
  {| corr_ok := true; prop_ok := prop;
     cls := if (status =? 0)%N then 9%N else if (status =? 3)%N then 3%N else if (status =? 4)%N then 4%N else 6%N |}.

Definition eval14 (c : case14) : verdict :=
  match c with
  | mk14 a f ws p0 i n af => eval14i a f ws p0 i n af
  | mk14f a wb p0 i n af => eval14f a wb p0 i n af
  | mk14L _ _ n k t wmax mult seed mode st d => eval14L n k t wmax mult seed mode st d
  end.

Definition run14 (cs : list case14) := report (map eval14 cs).

(* Evaluation of C14 correspondence cases: model vs implementation, and the
   certified checker on the implementation's output.  Depends on the models
   only (not on the proofs). *)
From Coupe Require Import Lib.Prelude Lib.SFloat Lib.Report Model.NumPart Model.Vn Model.ArithW Model.VnW.
From Coq Require Import Floats.SpecFloat.
Open Scope Z_scope.

(* c_alg: 0 = VnBest, 1 = VnFirst.  c_flt: the weights were passed as f64
   (integer-valued).  c_impl: IOk = the partition array after an Ok return;
   c_cnt: the returned move count; c_after: the array after the call when the
   call returned an error (must be the input array). *)
Inductive case14 :=
| mk14 (c_alg : N) (c_flt : bool) (c_ws : list Z) (c_p0 : list N) (c_impl : impl_res) (c_cnt : N) (c_after : list N)
(* genuine binary64 weights (bit patterns); run on a rayon pool of one thread *)
| mk14f (c_alg : N) (c_wbits : list N) (c_p0 : list N) (c_impl : impl_res) (c_cnt : N) (c_after : list N).

Definition res2_eqb (a b : res (list N * N)) : bool :=
  match a, b with
  | Ok (p, n), Ok (q, m) => list_eqb N.eqb p q && (n =? m)%N
  | Err e, Err e' => match e, e' with
                     | InputLenMismatch x y, InputLenMismatch x' y' => Nat.eqb x x' && Nat.eqb y y'
                     | NegativeValues, NegativeValues => true
                     | _, _ => false end
  | Panic _, Panic _ => true
  | OutOfFuel, OutOfFuel => true
  | _, _ => false
  end.

(* turns granted to VnBest's `loop` in the generic model (no bound is known for floats) *)
Definition vb_fuel (n : nat) : nat := 1000 + 8 * n * n.

Definition f64_weight_ok (x : spec_float) : bool :=
  match x with
  | S754_zero _ => true
  | S754_finite s _ _ => negb s
  | _ => false
  end.

Definition eval14f (alg : N) (wbits : list N) (p0 : list N) (impl : impl_res) (cnt : N) (after : list N) : verdict :=
  let ws := map (fun b => f64_of_bits b) wbits in
  let best := (alg =? 0)%N in
  let r := if best then vn_bestW F64arith true (vb_fuel (length ws)) ws p0 else vn_firstW F64arith ws p0 in
  let untouched := list_eqb N.eqb after p0 in
  let corr :=
    match r, impl with
    | Ok (p, n), IOk p' => list_eqb N.eqb p p' && (n =? cnt)%N
    | Err e, IErr code a b => err_matches e code a b && untouched
    | Panic _, IPanic => true
    | OutOfFuel, IHang => true          (* the model predicts that the loop does not end *)
    | _, _ => false
    end in
  let len_ok := Nat.eqb (length ws) (length p0) in
  let chk := match impl with IOk p' => check_vn_f64 ws p0 p' | _ => None end in
  let prop :=
    if negb len_ok then
      match impl with
      | IErr 1 a b => (a =? N.of_nat (length p0))%N && (b =? N.of_nat (length ws))%N && untouched
      | _ => false
      end
    else if forallb f64_weight_ok ws then
      match chk with
      | Some (accepted, _) => accepted
      | None => false                    (* error, panic or HANG inside the contract *)
      end
    else if best then
      (* a negative weight: VnBest must answer NegativeValues; NaN / infinities: outside the contract *)
      if existsb (fun x => SFltb x (S754_zero false)) ws && forallb (fun x => negb (is_nan x)) ws then
        match impl with IErr 2 _ _ => untouched | _ => false end
      else true
    else true in
  let cls := match impl with
             | IOk _ => match chk with Some (_, true) => 7 | _ => 8 end
             | IErr 1 _ _ => 1 | IErr 2 _ _ => 2 | IErr _ _ _ => 6 | IPanic => 3 | IHang => 4 end%N in
  {| corr_ok := corr; prop_ok := prop; cls := cls |}.

Definition eval14i (c_alg : N) (c_flt : bool) (ws : list Z) (p0 : list N) (c_impl : impl_res) (c_cnt : N) (c_after : list N) : verdict :=
  let best := (c_alg =? 0)%N in
  let r := if best then vn_best c_flt ws p0 else vn_first ws p0 in
  (* the generic model at the integer arithmetic (i64 runs) / at binary64 on the same integers (f64 runs)
     is the integer model *)
  let rW :=
    if c_flt then
      let wf := map (fun z => f64_of_Z z) ws in
      if best then vn_bestW F64arith true (vb_fuel (length ws)) wf p0 else vn_firstW F64arith wf p0
    else if best then vn_bestW Zarith true (vb_fuel (length ws)) ws p0 else vn_firstW Zarith ws p0 in
  let untouched := list_eqb N.eqb c_after p0 in
  let corr :=
    match r, c_impl with
    | Ok (p, n), IOk p' => list_eqb N.eqb p p' && (n =? c_cnt)%N
    | Err e, IErr code a b => err_matches e code a b && untouched
    | Panic _, IPanic => true
    | _, _ => false
    end in
  let len_ok := Nat.eqb (length ws) (length p0) in
  let nonneg := forallb (fun w => 0 <=? w) ws in
  let prop :=
    if negb len_ok then
      (* C20 clause: the mismatch is reported and the array is untouched *)
      match c_impl with
      | IErr 1 a b => (a =? N.of_nat (length p0))%N && (b =? N.of_nat (length ws))%N && untouched
      | _ => false
      end
    else if nonneg then
      match c_impl with
      | IOk p' => check_vn ws p0 p'
      | _ => false                       (* error, panic or hang inside the contract *)
      end
    else if best then
      (* VnBest rejects negative weights, array untouched *)
      match c_impl with
      | IErr 2 _ _ => untouched
      | _ => false
      end
    else true in                         (* VnFirst with a negative weight: outside the contract *)
  let cls := match c_impl with
             | IOk p' => if list_eqb N.eqb p' p0 then 0 else 5
             | IErr 1 _ _ => 1 | IErr 2 _ _ => 2 | IErr _ _ _ => 6 | IPanic => 3 | IHang => 4 end%N in
  {| corr_ok := corr && res2_eqb rW r; prop_ok := prop; cls := cls |}.

Definition eval14 (c : case14) : verdict :=
  match c with
  | mk14 a f ws p0 i n af => eval14i a f ws p0 i n af
  | mk14f a wb p0 i n af => eval14f a wb p0 i n af
  end.

Definition run14 (cs : list case14) := report (map eval14 cs).

(* Evaluation of C07 correspondence cases.  The implementation's own choices
   (per pass: recorded cut, moves (vertex, gain)) are replayed through the
   model, which checks each choice is one the code may make; final partition
   and Metadata must then be equal.  The certified checker judges the
   implementation's output.  Depends on the model only (not on the proofs). *)
From Coupe Require Import Lib.Prelude Lib.SFloat Lib.Report Lib.Graph Model.Fm.
Open Scope Z_scope.

Record case07 := mk07 {
  c_g : graph; c_ws : list Z; c_p0 : list N;
  c_dbg : bool (* the harness build has debug assertions *);
  c_mp : option N; c_mm : option N; c_mi : option N (* f64 bits *); c_mb : N;
  c_orc : list pass_rec;
  c_impl : impl_res; c_mpp : list N; c_rpp : list N }.

Definition eval07 (c : case07) : verdict :=
  let mi := match c_mi c with Some b => Some (f64_of_bits b) | None => None end in
  (* fm_dbg follows the profile of the harness that produced the case (debug / release) *)
  let cfg := {| fm_max_passes := c_mp c; fm_max_moves := c_mm c; fm_max_imb := mi; fm_max_bad := c_mb c; fm_dbg := c_dbg c |} in
  let g := c_g c in
  let ws := c_ws c in
  let p0 := c_p0 c in
  (* fuel: [fm_fuel] (initial cut + 2 passes) suffices inside the contract (C07_terminates; every
     theorem holds for any fuel).  Outside it -- a non-symmetric matrix -- the tracked cut can go
     down for ever, and a bounded max_passes lets the code make more passes than that: one more
     unit per recorded pass, so that such a run is replayed to its end. *)
  let r := fm cfg (fm_fuel g p0 + length (c_orc c)) g ws p0 (c_orc c) in
  let pw := (load ws p0 0, load ws p0 1) in
  (* usage contract of the property *)
  let in_contract :=
    Nat.eqb (length ws) (length p0) && wf_graphb g (length p0) && rows_sortedb g
    && symmetricb g && no_self_loopb g && pos_edgesb g
    && forallb (fun w => 0 <=? w) ws && forallb (fun x => (x <=? 1)%N) p0
    && match fm_cap mi pw with Some _ => true | None => false end   (* the cap converts to i64 *) in
  let corr :=
    match r, c_impl c with
    | Ok (FmOk p mpp rpp), IOk p' =>
        list_eqb N.eqb p p' && list_eqb N.eqb mpp (c_mpp c) && list_eqb N.eqb rpp (c_rpp c)
    | Err e, IErr code a b => err_matches e code a b
    | Panic _, IPanic => true
    (* a hang outside the contract (release build, non-symmetric matrix, unbounded passes: the
       tracked cut decreases for ever) cannot be replayed -- the trace is cut by the watchdog --
       and is no alarm; inside the contract it is one (and [prop] below is false) *)
    | _, IHang => negb in_contract
    | _, _ => false
    end in
  let prop :=
    if in_contract then
      match fm_cap mi pw, c_impl c with
      | Some cap, IOk p => check_C07 g ws cap (c_mp c) (c_mm c) p0 p (c_mpp c) (c_rpp c)
      | _, _ => false                        (* panic, hang or error inside the contract *)
      end
    else true in
  (* 0 unchanged | 1 changed | 2 panic | 3 hang | 4 error;  +10 outside the contract *)
  let base := match c_impl c with
              | IOk p => if list_eqb N.eqb p p0 then 0 else 1
              | IPanic => 2 | IHang => 3 | IErr _ _ _ => 4 end%N in
  {| corr_ok := corr; prop_ok := prop; cls := (if in_contract then base else base + 10)%N |}.

Definition run07 (cs : list case07) := report (map eval07 cs).

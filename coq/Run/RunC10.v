(* Evaluation of C10 correspondence cases: model vs implementation (same pool
   size T), and the certified checker on the implementation's output.  Depends
   on the model and the generated constants only (not on the proofs). *)
From Coupe Require Import Lib.Prelude Lib.SFloat Lib.Report Model.GridRcb Gen.GridRcbGen.
Open Scope Z_scope.

(* the model at the literals of the current source *)
Definition cfg_impl : cfg :=
  mkcfg gridrcb_min_chunks gridrcb_min_chunk_size gridrcb_tolerance_bits
        gridrcb_start_recurse_2d gridrcb_start_recurse_3d
        gridrcb_start_part_of_2d gridrcb_start_part_of_3d.

(* fuel given to every median search of a correspondence run: enough for axes
   shorter than 2^40 (theorem C10_median_terminates); the harness uses sides <= 12 *)
Definition run_fuel : nat := 41.

Record case10 := mk10 {
  c_ds : list nat;        (* sides: [w;h] or [w;h;d] *)
  c_ws : list Z;          (* cell weights (i64, or f64 holding integers) *)
  c_k : nat;              (* iter_count *)
  c_T : nat;              (* rayon pool size the implementation ran under *)
  c_fw : bool;            (* weights were passed as f64 *)
  c_impl : impl_res }.

Definition start_axis (ds : list nat) : nat :=
  if Nat.eqb (length ds) 2 then gridrcb_start_recurse_2d else gridrcb_start_recurse_3d.

Definition eval10 (c : case10) : verdict :=
  let r := grid_rcb cfg_impl run_fuel (c_T c) (c_fw c) (c_ds c) (c_ws c) (c_k c) (glen (c_ds c)) in
  let corr :=
    match r, c_impl c with
    | Ok p, IOk p' => list_eqb N.eqb p p'
    | Panic _, IPanic => true
    | OutOfFuel, IHang => true
    | _, _ => false
    end in
  let in_contract :=
    negb (existsb (Nat.eqb 0) (c_ds c))
    && (Nat.eqb (length (c_ds c)) 2 || Nat.eqb (length (c_ds c)) 3)
    && Nat.eqb (length (c_ws c)) (glen (c_ds c))
    && forallb (fun w => 0 <=? w) (c_ws c)
    && (sumZ (c_ws c) <? 2 ^ 46)      (* range of theorem C10_thresholds; beyond: correspondence only *)
    && Nat.leb 1 (c_T c) in
  let prop :=
    if in_contract then
      match c_impl c with
      | IOk p => check_C10 (start_axis (c_ds c)) (c_ds c) (c_ws c) (c_k c) p
      | _ => false                 (* panic or hang inside the contract *)
      end
    else true in
  let cls := match c_impl c with IOk _ => 0 | IErr _ _ _ => 2 | IPanic => 3 | IHang => 4 end%N in
  {| corr_ok := corr; prop_ok := prop; cls := cls |}.

Definition run10 (cs : list case10) := report (map eval10 cs).

(* Evaluation of C10 correspondence cases: model vs implementation (same pool
   size T), and the certified checker on the implementation's output.  Depends
   on the model and the generated constants only (not on the proofs). *)
From Coupe Require Import Lib.Prelude Lib.SFloat Lib.Report Model.GridRcb Gen.GridRcbGen.
Open Scope Z_scope.

(* the model at the literals of the current source *)
Definition cfg_impl : cfg :=
  mkcfg gridrcb_min_chunks gridrcb_min_chunk_size gridrcb_tolerance_bits
        gridrcb_start_recurse_2d gridrcb_start_recurse_3d
        gridrcb_start_part_of_2d gridrcb_start_part_of_3d.

(* fuel given to every median search of a correspondence run: enough for axes
   shorter than 2^40 (theorem C10_median_terminates); the harness uses sides <= 12 *)
Definition run_fuel : nat := 41.

Record case10 := mk10 {
  c_ds : list nat;        (* sides: [w;h] or [w;h;d] *)
  c_ws : list Z;          (* cell weights z: i64 values, or f64 values z * 2^-k *)
  c_k : nat;              (* iter_count *)
  c_T : nat;              (* rayon pool size the implementation ran under *)
  c_fw : wty;             (* I64, or F64 k *)
  c_mode : N;             (* 0: every sum the code forms is exact in its weight type: model compared,
                                i64 judged by the LITERAL clause of the property (1% + one unit, or
                                adjacent) -- for totals >= 2^46 that clause is known to fail by float
                                rounding (known finding gridrcb-i64-total-ge-2p46-band-rounding, tag
                                computed by the harness from the input alone);
                             2: the untagged twin of an i64 case with total >= 2^46: same input and
                                output, judged by the PROVED clause (band_i64) -- a failure here is not
                                covered by the known finding;
                             1: arbitrary f64 fractions, given exactly at scale k -- checker only *)
  c_impl : impl_res }.

Definition start_axis (ds : list nat) : nat :=
  if Nat.eqb (length ds) 2 then gridrcb_start_recurse_2d else gridrcb_start_recurse_3d.

(* band allowance for the arbitrary-fraction stream: the implementation's f64
   prefix sums and total differ from the exact ones by at most ~n * 2^-53
   relative (n <= 1728 cells), which moves the 1% band by less than 2^-30 *)
Definition arb_slack : Z := 30.

Definition eval10 (c : case10) : verdict :=
  let sides_ok :=
    negb (existsb (Nat.eqb 0) (c_ds c))
    && (Nat.eqb (length (c_ds c)) 2 || Nat.eqb (length (c_ds c)) 3)
    && Nat.eqb (length (c_ws c)) (glen (c_ds c))
    && forallb (fun w => 0 <=? w) (c_ws c)
    && Nat.leb 1 (c_T c) in
  if negb (c_mode c =? 1)%N then
    let r := grid_rcb cfg_impl run_fuel (c_T c) (c_fw c) (c_ds c) (c_ws c) (c_k c) (glen (c_ds c)) in
    let corr_model :=
      match r, c_impl c with
      | Ok p, IOk p' => list_eqb N.eqb p p'
      | Panic _, IPanic => true
      | OutOfFuel, IHang => true
      | _, _ => false
      end in
    (* range of theorems C10_thresholds_i64 (2^63) / _f64 (2^53); beyond: correspondence only *)
    let in_contract :=
      sides_ok
      && match c_fw c with
         | I64 => sumZ (c_ws c) <? 2 ^ 63
         | F64 k => Nat.leb k 1000 && (sumZ (c_ws c) <? 2 ^ 53)
         end in
    let chk balb :=
      match c_impl c with
      | IOk p => check_C10 balb (start_axis (c_ds c)) (c_ds c) (c_ws c) (c_k c) p
      | _ => false                 (* panic or hang inside the contract *)
      end in
    (* the property's literal clause: i64 = 1% + one unit or adjacent, for EVERY total *)
    let literal := match c_fw c with I64 => chk bal_unit_b | F64 _ => chk (bal_prop_b (c_fw c)) end in
    (* the proved clause: differs from the literal one only for i64 totals of 2^46 and more *)
    let proved :=
      match c_fw c with
      | I64 => if sumZ (c_ws c) <? 2 ^ 46 then literal else chk (bal_prop_b I64)
      | F64 _ => literal
      end in
    let lit := if in_contract then literal else true in
    let prv := if in_contract then proved else true in
    let cls := match c_impl c with
               | IOk _ => if negb lit && prv then 6 else 0
               | IErr _ _ _ => 2 | IPanic => 3 | IHang => 4 end%N in
    if (c_mode c =? 2)%N then
      {| corr_ok := corr_model; prop_ok := prv; cls := cls |}
    else
      (* a case that fails even the proved band is also a correspondence failure
         (model/implementation or proved-band mismatch) *)
      {| corr_ok := corr_model && prv; prop_ok := lit; cls := cls |}
  else
    (* arbitrary f64 fractions: the sums the code forms are rounded and their association
       depends on the pool size, so no model run; the checker judges the ids against the
       EXACT weights (every f64 is z * 2^-k), with no unit slack *)
    let prop :=
      if sides_ok then
        match c_impl c with
        | IOk p => check_C10 (bal_rel_b arb_slack) (start_axis (c_ds c)) (c_ds c) (c_ws c) (c_k c) p
        | _ => false
        end
      else true in
    let cls := match c_impl c with IOk _ => 5 | IErr _ _ _ => 2 | IPanic => 3 | IHang => 4 end%N in
    {| corr_ok := match c_impl c with IOk _ => true | _ => false end; prop_ok := prop; cls := cls |}.

Definition run10 (cs : list case10) := report (map eval10 cs).

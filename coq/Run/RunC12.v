(* Evaluation of C12 correspondence cases: model vs implementation, and the
   certified checkers on the implementation's output.  Depends on the models
   only (not on the proofs). *)
From Coupe Require Import Lib.Prelude Lib.SFloat Lib.Report Model.NumPart Model.Greedy Model.Kk Model.ArithW Model.GreedyW.
From Coq Require Import Floats.SpecFloat.
Open Scope Z_scope.

(* mk12: c_alg: 0 = Greedy, 1 = KarmarkarKarp; integer weights.  c_implf: the same call with the
   weights converted to f64 (Greedy only; integer-valued data).
   mk12f: Greedy on genuine binary64 weights (bit patterns): fractions, mixed magnitudes, sums that round. *)
Inductive case12 :=
| mk12 (c_alg : N) (c_ws : list Z) (c_k : nat) (c_p0 : list N) (c_impl : impl_res) (c_implf : option impl_res)
| mk12f (c_wbits : list N) (c_k : nat) (c_p0 : list N) (c_impl : impl_res)
(* KarmarkarKarp on binary64 weights through coupe::Real that are NOT exactly scaled integers (e.g. k * 1e-300):
   there is no float model of KarmarkarKarp; judged by the checker only, in exact arithmetic on the values,
   up to accumulated rounding (gap <= largest weight + total / 2^45) *)
| mk12kf (c_wbits : list N) (c_k : nat) (c_p0 : list N) (c_impl : impl_res).

Definition res_eqb (a b : res (list N)) : bool :=
  match a, b with
  | Ok p, Ok q => list_eqb N.eqb p q
  | Err e, Err e' => match e, e' with
                     | InputLenMismatch x y, InputLenMismatch x' y' => Nat.eqb x x' && Nat.eqb y y'
                     | _, _ => false end
  | Panic _, Panic _ => true
  | OutOfFuel, OutOfFuel => true
  | _, _ => false
  end.

(* binary64 weights inside the contract: finite, not negative (and not -0.0, see docs/C12.md) *)
Definition f64_weight_ok (x : spec_float) : bool :=
  match x with
  | S754_zero s => negb s
  | S754_finite s _ _ => negb s
  | _ => false
  end.

Definition eval12f (wbits : list N) (k : nat) (p0 : list N) (impl : impl_res) : verdict :=
  let ws := map (fun b => f64_of_bits b) wbits in
  let r := greedyW F64arith ws k p0 in
  let len_ok := Nat.eqb (length ws) (length p0) in
  let in_contract := len_ok && forallb f64_weight_ok ws && Nat.leb 1 k in
  let prop :=
    if in_contract then
      match impl with
      | IOk p => check_greedyW F64arith ws k p      (* LPT in the rounded arithmetic of the code *)
      | _ => false
      end
    else if negb len_ok then
      match impl with
      | IErr 1 a b => (a =? N.of_nat (length p0))%N && (b =? N.of_nat (length ws))%N
      | _ => false
      end
    else true in
  let cls := match impl with IOk _ => 9 | IErr 1 _ _ => 1 | IErr _ _ _ => 2 | IPanic => 3 | IHang => 4 end%N in
  {| corr_ok := res_matches r impl; prop_ok := prop; cls := cls |}.

Definition sorted_loads (ws : list Z) (p : list N) (k : nat) : list Z := sortZ_desc (loads ws p k).

Definition eval12i (c_alg : N) (ws : list Z) (k : nat) (p0 : list N) (c_impl : impl_res) (c_implf : option impl_res) : verdict :=
  let greedy_p := (c_alg =? 0)%N in
  let r := if greedy_p then greedy ws k p0 else kk_partition sort_stable_desc ws k p0 in
  (* k-way KarmarkarKarp: the tie order of sort_unstable is not specified, only the loads are compared *)
  let loads_only := negb greedy_p && Nat.leb 3 k in
  (* rows of more than 20 entries: the standard library no longer uses its (stable) insertion sort, ties do
     come out in another order than in the executed model and may steer later pairings: nothing but the
     property itself is fixed, so only the checker judges the output *)
  let wide := loads_only && Nat.leb 21 k in
  let exact := res_matches r c_impl in
  let corr1 :=
    if loads_only then
      match r, c_impl with
      | Ok p, IOk p' =>
        Nat.eqb (length p) (length p')
        && (wide || list_Zeqb (sorted_loads ws p k) (sorted_loads ws p' k))
      | _, _ => exact
      end
    else exact in
  let corr2 := match c_implf with None => true | Some i => res_matches r i end in
  (* the generic model at the integer arithmetic is the integer model *)
  let corr3 := if greedy_p then res_eqb (greedyW Zarith ws k p0) r else true in
  let len_ok := Nat.eqb (length ws) (length p0) in
  let in_contract := len_ok && forallb (fun w => 0 <=? w) ws && Nat.leb 1 k in
  let prop :=
    if in_contract then
      match c_impl with
      | IOk p => if greedy_p then check_greedy ws k p else check_kk ws k p
      | _ => false                        (* error, panic or hang inside the contract *)
      end
    else if negb len_ok then
      (* malformed stream (C20 clause): the mismatch is reported *)
      match c_impl with
      | IErr 1 a b => (a =? N.of_nat (length p0))%N && (b =? N.of_nat (length ws))%N
      | _ => false
      end
    else true in                          (* negative weights / zero parts: outside the contract *)
  let cls := match c_impl with
             | IOk _ => if wide then (if exact then 7 else 8) else if loads_only then (if exact then 5 else 6) else 0
             | IErr 1 _ _ => 1 | IErr _ _ _ => 2 | IPanic => 3 | IHang => 4 end%N in
  {| corr_ok := corr1 && corr2 && corr3; prop_ok := prop; cls := cls |}.

Definition eval12kf (wbits : list N) (k : nat) (p0 : list N) (impl : impl_res) : verdict :=
  let ws := map (fun b => f64_of_bits b) wbits in
  let len_ok := Nat.eqb (length ws) (length p0) in
  let in_contract := len_ok && forallb f64_weight_ok ws && Nat.leb 1 k in
  let prop :=
    if in_contract then
      match impl, exact_ints ws with
      | IOk p, Some zs =>
        Nat.eqb (length p) (length zs) && ids_below k p
        && (gap (loads zs p k) <=? maxl zs + sumZ zs / 2 ^ 45)
      | _, _ => false
      end
    else if negb len_ok then
      match impl with
      | IErr 1 a b => (a =? N.of_nat (length p0))%N && (b =? N.of_nat (length ws))%N
      | _ => false
      end
    else true in
  let cls := match impl with IOk _ => 10 | IErr 1 _ _ => 1 | IErr _ _ _ => 2 | IPanic => 3 | IHang => 4 end%N in
  {| corr_ok := true; prop_ok := prop; cls := cls |}.

Definition eval12 (c : case12) : verdict :=
  match c with
  | mk12 a ws k p0 i f => eval12i a ws k p0 i f
  | mk12f wb k p0 i => eval12f wb k p0 i
  | mk12kf wb k p0 i => eval12kf wb k p0 i
  end.

Definition run12 (cs : list case12) := report (map eval12 cs).

(* Evaluation of C12 correspondence cases: model vs implementation, and the
   certified checkers on the implementation's output.  Depends on the models
   only (not on the proofs). *)
From Coupe Require Import Lib.Prelude Lib.Report Model.NumPart Model.Greedy Model.Kk.
Open Scope Z_scope.

(* c_alg: 0 = Greedy, 1 = KarmarkarKarp.  c_implf: the same call with the
   weights converted to f64 (Greedy only; integer-valued data). *)
Record case12 := mk12 { c_alg : N; c_ws : list Z; c_k : nat; c_p0 : list N;
                        c_impl : impl_res; c_implf : option impl_res }.

Definition sorted_loads (ws : list Z) (p : list N) (k : nat) : list Z := sortZ_desc (loads ws p k).

Definition eval12 (c : case12) : verdict :=
  let ws := c_ws c in let k := c_k c in let p0 := c_p0 c in
  let greedy_p := (c_alg c =? 0)%N in
  let r := if greedy_p then greedy ws k p0 else kk_partition sort_stable_desc ws k p0 in
  (* k-way KarmarkarKarp: the tie order of sort_unstable is not specified, only the loads are compared *)
  let loads_only := negb greedy_p && Nat.leb 3 k in
  (* rows of more than 20 entries: the standard library no longer uses its (stable) insertion sort, ties do
     come out in another order than in the executed model and may steer later pairings: nothing but the
     property itself is fixed, so only the checker judges the output *)
  let wide := loads_only && Nat.leb 21 k in
  let exact := res_matches r (c_impl c) in
  let corr1 :=
    if loads_only then
      match r, c_impl c with
      | Ok p, IOk p' =>
        Nat.eqb (length p) (length p')
        && (wide || list_Zeqb (sorted_loads ws p k) (sorted_loads ws p' k))
      | _, _ => exact
      end
    else exact in
  let corr2 := match c_implf c with None => true | Some i => res_matches r i end in
  let len_ok := Nat.eqb (length ws) (length p0) in
  let in_contract := len_ok && forallb (fun w => 0 <=? w) ws && Nat.leb 1 k in
  let prop :=
    if in_contract then
      match c_impl c with
      | IOk p => if greedy_p then check_greedy ws k p else check_kk ws k p
      | _ => false                        (* error, panic or hang inside the contract *)
      end
    else if negb len_ok then
      (* malformed stream (C20 clause): the mismatch is reported *)
      match c_impl c with
      | IErr 1 a b => (a =? N.of_nat (length p0))%N && (b =? N.of_nat (length ws))%N
      | _ => false
      end
    else true in                          (* negative weights / zero parts: outside the contract *)
  let cls := match c_impl c with
             | IOk _ => if wide then (if exact then 7 else 8) else if loads_only then (if exact then 5 else 6) else 0
             | IErr 1 _ _ => 1 | IErr _ _ _ => 2 | IPanic => 3 | IHang => 4 end%N in
  {| corr_ok := corr1 && corr2; prop_ok := prop; cls := cls |}.

Definition run12 (cs : list case12) := report (map eval12 cs).

(* Evaluation of the k-means correspondence cases (harness/src/kmeans_common.rs,
   bins c02km / c06km): Model/KMeans.v in binary64 against the implementation's
   final partition under every pool size, the C02 clauses on every output, the
   C06 clause (all outputs identical) on the exact-arithmetic cases.
   Depends on the model and the generated constants only. *)
From Coupe Require Import Lib.Prelude Lib.SFloat Lib.Report Lib.Rayon Model.KMeansAbs Model.KMeans Gen.KMeansGen.
From Coq Require Import Floats.SpecFloat.
Local Open Scope nat_scope.

(* binary64 with the constants read from the source; `ln` / `exp` are not
   modelled: the cases with erode = true are not compared with the model *)
Definition no_fn1 (x : spec_float) : spec_float := S754_nan.
Definition no_fn2 (x y : spec_float) : spec_float := S754_nan.
Definition F64 : karith := F64km no_fn2 no_fn1 km_fmax_bits km_fmin_bits km_eps_bits km_step_bits.

Record caseKM := mkKM {
  q_dim : nat;                          (* D *)
  q_pts : list (list N);                (* coordinates, f64 bit patterns *)
  q_ws : list N;                        (* weights, f64 bit patterns *)
  q_part : list N;                      (* the input partition *)
  q_tol : N;                            (* imbalance_tol, bits *)
  q_delta : N;                          (* delta_threshold, bits *)
  q_max_iter : nat;
  q_max_bal : nat;
  q_erode : bool;
  q_hilbert : bool;
  q_early : bool;                       (* mbr_early_break *)
  q_rot : option (list (list N));       (* obb_to_aabb by rows, bits; None = not exported / not validated *)
  q_model : bool;                       (* compare with the model (rotation validated against the hooks, erode = false) *)
  q_exact : bool;                       (* integer-valued input: the C06 clause applies *)
  q_contract : bool;                    (* input inside the usage contract: the C02 clauses apply *)
  q_impls : list impl_res;              (* one output per (pool, repetition) *)
  q_prefix : list impl_res;             (* compared cases: the output for max_iter = 0, 1, .. max_iter - 1 (pool 4) *)
  q_events : option (list (N * list N)) (* compared cases, when /repo has the k-means records: (0, assignments) (1, lbs ++ ubs bits)
                                           after every assignment step, (2, influences bits) after every influence update *)
}.

Definition fl (b : N) : spec_float := f64_of_bits b.

Definition trace_of (R : reds F64) (c : caseKM) : res (list (list N)) :=
  kmeans_trace F64 R (option_map (map (map fl)) (q_rot c)) (q_dim c)
         (mkSettings F64 (fl (q_tol c)) (fl (q_delta c)) (q_max_iter c) (q_max_bal c)
                     (q_erode c) (q_hilbert c) (q_early c))
         (map (map fl) (q_pts c)) (map fl (q_ws c)) (q_part c).

Definition events_of (R : reds F64) (c : caseKM) : res (list N * list (event F64)) :=
  kmeans_events F64 R (option_map (map (map fl)) (q_rot c)) (q_dim c)
         (mkSettings F64 (fl (q_tol c)) (fl (q_delta c)) (q_max_iter c) (q_max_bal c)
                     (q_erode c) (q_hilbert c) (q_early c))
         (map (map fl) (q_pts c)) (map fl (q_ws c)) (q_part c).

Definition bits (l : list spec_float) : list N := map (fun x => f64_to_bits x) l.
Fixpoint ev_flat (evs : list (event F64)) : list (N * list N) :=
  match evs with
  | [] => []
  | EvAssign _ a l u :: t => (0%N, a) :: (1%N, bits l ++ bits u) :: ev_flat t
  | EvInfl _ i :: t => (2%N, bits i) :: ev_flat t
  end.
Definition rec_eqb (a b : N * list N) : bool := (fst a =? fst b)%N && list_eqb N.eqb (snd a) (snd b).

(* the recorded influences / bounds / assignments of the implementation, bit for bit *)
Definition events_ok (c : caseKM) : bool :=
  match q_events c with
  | None => true
  | Some recs =>
    match events_of (reds_tree F64 T_seq P_id) c with
    | Ok (_, evs) => list_eqb rec_eqb (ev_flat evs) recs
    | _ => false
    end
  end.

Definition check_valid (bound : N) (n : nat) (p : list N) : bool :=
  Nat.eqb (length p) n && forallb (fun x => (x <=? bound)%N) p.

Definition impl_eqb (a b : impl_res) : bool :=
  match a, b with
  | IOk p, IOk q => list_eqb N.eqb p q
  | IPanic, IPanic => true
  | _, _ => false
  end.

Definition all_same (l : list impl_res) : bool :=
  match l with
  | [] => true
  | x :: t => forallb (impl_eqb x) t
  end.

Definition is_flag {X} (r : res X) : bool :=
  match r with Panic 99 => true | _ => false end.

(* the run with max_iter = i ends with the assignments of iteration min(i, last)
   of the longer run (same inputs, same settings otherwise) *)
Fixpoint prefix_ok (part : list N) (tr : list (list N)) (i : nat) (outs : list impl_res) : bool :=
  match outs with
  | [] => true
  | o :: t => res_matches (Ok (nth i tr (last tr part))) o && prefix_ok part tr (S i) t
  end.

(* class: 100 not compared with the model | 101 compared, the checked run raised
   the schedule-sensitivity flag | 102 compared, no flag (then every schedule of
   the model gives this very result: KMeansSched.kmeans_chk_sched_indep) *)
Definition evalKM (c06 : bool) (c : caseKM) : verdict :=
  let prop02 :=
    negb (q_contract c) ||
    forallb (fun i => match i with
                      | IOk p => check_valid (list_maxN (q_part c)) (length (q_part c)) p
                      | _ => false
                      end) (q_impls c) in
  (* erode sums computed diameters (not integers) in HashMap order: outside "exactly representable sums" *)
  let prop06 := negb (q_exact c) || q_erode c || all_same (q_impls c) in
  let '(corr, cl) :=
    if q_model c then
      (* the traced model: its last entry is the model's result (KMeansTrace.kmeans_trace_final) *)
      let tr := trace_of (reds_chk F64 sum_ok_f64 val_ok_f64 cmp_ok_f64 T_seq P_id) c in
      let flagged := is_flag tr in
      let tr := if flagged then trace_of (reds_tree F64 T_seq P_id) c else tr in
      let r := final_of_trace (q_part c) tr in
      (forallb (res_matches r) (q_impls c) &&
       match tr with
       | Ok l => prefix_ok (q_part c) l 0 (q_prefix c)
       | _ => forallb (res_matches r) (q_prefix c)
       end && events_ok c,
       if flagged then 101%N else 102%N)
    else (true, 100%N) in
  {| corr_ok := corr; prop_ok := if c06 then prop06 else prop02; cls := cl |}.

Definition run02km (cs : list caseKM) := report (map (evalKM false) cs).
Definition run06km (cs : list caseKM) := report (map (evalKM true) cs).

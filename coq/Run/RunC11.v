(* Evaluation of C11 correspondence cases: Model/MultiJagged.v against the
   implementation, and the certified checkers on the implementation's output.
   Depends on the model only (not on the proofs). *)
From Coupe Require Import Lib.Prelude Lib.SFloat Lib.Report Model.MultiJagged Gen.MjGen.
From Coq Require Import Floats.SpecFloat QArith FMapPositive.
Open Scope N_scope.

Record case11 := mk11 {
  c_dim : nat;                                   (* D *)
  c_pts : list (list N);                         (* one list of D coordinates (f64 bit patterns) per point *)
  c_ws : list Z;                                 (* weights = c_ws * 2^c_wexp, exactly representable in f64 *)
  c_wexp : Z;
  c_k : N;                                       (* part_count *)
  c_iter : nat;                                  (* max_iter *)
  c_blk : nat;                                   (* block length the model's scan uses (any value must do) *)
  c_scheme : option (scheme N);                  (* verif_multi_jagged::partition_scheme, None = it panicked *)
  c_root0 : N;                                   (* the root expression for (k, max_iter), used when the hook panicked *)
  c_sorts : list (nat * list nat * list nat);    (* (axis, slice, slice as sorted by rayon) where it is not the stable order *)
  c_impl : impl_res;                             (* partition under the pool size of the case *)
  c_seq : impl_res                               (* partition under a pool of one thread *)
}.

(* ---------- points of large inputs, given by formulas (the harness evaluates the same ones) ---------- *)

Inductive cspec :=
| CAff (a b m q : Z)                          (* ((a * i + b) mod m) / q *)
| CBlock (order : list Z) (interleave : bool). (* b = order[i / 1024], o = i mod 1024: o * nb + b or b * 1024 + o *)

Definition cval (s : cspec) (i : Z) : Z :=
  match s with
  | CAff a b m q => (((a * i + b) mod m) / q)%Z
  | CBlock order il =>
    let b := nth (Z.to_nat (i / 1024)) order 0%Z in
    let o := (i mod 1024)%Z in
    if il then (o * Z.of_nat (length order) + b)%Z else (b * 1024 + o)%Z
  end.

Definition gen_pts (n : nat) (specs : list cspec) : list (list N) :=
  map (fun i => map (fun s => f64_to_bits (f64_of_Z (cval s (Z.of_nat i)))) specs) (seq 0 n).

(* ---------- generic helpers ---------- *)

Fixpoint map_scheme {B C} (f : B -> C) (s : scheme B) : scheme C :=
  match s with
  | SNode ns mods next =>
    SNode ns (map f mods)
      match next with
      | None => None
      | Some cs => Some ((fix go (l : list (scheme B)) := match l with [] => [] | c :: t => map_scheme f c :: go t end) cs)
      end
  end.

Fixpoint scheme_eqb (a b : scheme N) : bool :=
  match a, b with
  | SNode n1 m1 x1, SNode n2 m2 x2 =>
    (n1 =? n2) && list_eqb N.eqb m1 m2 &&
    match x1, x2 with
    | None, None => true
    | Some c1, Some c2 =>
      (fix go (l1 l2 : list (scheme N)) : bool :=
         match l1, l2 with
         | [], [] => true
         | a' :: t1, b' :: t2 => scheme_eqb a' b' && go t1 t2
         | _, _ => false
         end) c1 c2
    | _, _ => false
    end
  end.

(* the roots the implementation's scheme reveals: approx_root = num_splits + 1
   at the node reached with (num_parts, max_iter); only the first fat and the
   first regular child are visited (the others are copies; the whole tree is
   compared with the model's anyway) *)
Fixpoint roots_of (s : scheme N) (n : N) (m : nat) : list (N * nat * N) :=
  match s with
  | SNode ns _ next =>
    let r := ns + 1 in
    (n, m, r) ::
    match next, m with
    | Some cs, S m' =>
      let rem := N.to_nat (n mod r) in
      let q := n / r in
      (fix go (l : list (scheme N)) (i : nat) : list (N * nat * N) :=
         match l with
         | [] => []
         | c :: t =>
           (if Nat.eqb i 0 && negb (Nat.eqb rem 0) then roots_of c (q + 1) m'
            else if Nat.eqb i rem then roots_of c q m' else []) ++ go t (S i)
         end) cs 0%nat
    | _, _ => []
    end
  end.

Definition root_of_table (tbl : list (N * nat * N)) (n : N) (m : nat) : N :=
  match find (fun '(n', m', _) => (n =? n') && Nat.eqb m m') tbl with
  | Some (_, _, r) => r
  | None => 0          (* unknown pair: the model panics (`% 0`), which the comparison reports *)
  end.

(* what the theorems assume of the root: 1 for one part, within [2, n] for more, n itself when max_iter = 1 *)
Definition root_entry_ok (e : N * nat * N) : bool :=
  let '(n, m, r) := e in
  (n =? 0) || (if n =? 1 then r =? 1 else (2 <=? r) && (r <=? n)) && (negb (Nat.eqb m 1) || (r =? n)).

(* rename part ids by first occurrence *)
Fixpoint index_of (x : N) (l : list N) (i : nat) : option nat :=
  match l with
  | [] => None
  | y :: t => if x =? y then Some i else index_of x t (S i)
  end.
Fixpoint canon_aux (seen : list N) (p : list N) : list N :=
  match p with
  | [] => []
  | x :: t =>
    match index_of x seen 0 with
    | Some i => N.of_nat i :: canon_aux seen t
    | None => N.of_nat (length seen) :: canon_aux (seen ++ [x]) t
    end
  end.
Definition canon (p : list N) : list N := canon_aux [] p.

Definition same_up_to_renaming (a b : list N) : bool := list_eqb N.eqb (canon a) (canon b).

(* all ordered pairs of a list *)
Fixpoint all_pairs {T} (f : T -> T -> bool) (l : list T) : bool :=
  match l with
  | [] => true
  | x :: t => forallb (f x) t && all_pairs f t
  end.

Definition perm_b (a b : list nat) : bool :=
  Nat.eqb (length a) (length b) &&
  forallb (fun x => Nat.eqb (count_occ Nat.eq_dec a x) (count_occ Nat.eq_dec b x)) a.

(* elements 0..n-1 grouped by id 0..L-1 *)
Definition leaves_of_ids (p : list N) (n L : nat) : list (list nat) :=
  let ip := combine (seq 0 n) p in
  map (fun j => map fst (filter (fun e => snd e =? N.of_nat j) ip)) (seq 0 L).

(* index -> value maps (logarithmic access instead of nth on lists) *)
Definition pm_of_list {T} (l : list T) : PositiveMap.t T :=
  fst (fold_left (fun (acc : PositiveMap.t T * positive) x =>
                    (PositiveMap.add (snd acc) x (fst acc), Pos.succ (snd acc)))
                 l (PositiveMap.empty T, 1%positive)).
Definition pm_get {T} (m : PositiveMap.t T) (i : nat) : option T := PositiveMap.find (Pos.of_succ_nat i) m.

(* binary64 with the epsilon the source passes to approx::Ulps (Gen/MjGen.v) *)
Definition F64impl : arith := if mj_refine_ulps_epsilon_is_zero then F64 else F64_default_epsilon.

(* ---------- one case ---------- *)

Definition unwritten : N := 18446744073709551615.

Definition eval_small (c : case11) : verdict :=
  let D := c_dim c in
  let n := length (c_pts c) in
  let k := c_k c in
  let m := c_iter c in
  let ptsf := map (map f64_of_bits) (c_pts c) in
  let ptsm := pm_of_list ptsf in
  let cx (a i : nat) := match pm_get ptsm i with Some l => nth a l S754_nan | None => S754_nan end in
  let cxlt (a x y : nat) := flt (cx a x) (cx a y) in
  (* oracles *)
  let tbl := match c_scheme c with Some s => roots_of s k m | None => [(k, m, c_root0 c)] end in
  let root := root_of_table tbl in
  let sorter (a : nat) (l : list nat) :=
    match find (fun '(a', inp, _) => Nat.eqb a a' && list_eqb Nat.eqb inp l) (c_sorts c) with
    | Some (_, _, out) => out
    | None => isort (cxlt a) l
    end in
  let sorts_ok :=
    forallb (fun '(a, inp, out) => perm_b inp out && all_pairs (fun x y => negb (cxlt a y x)) out) (c_sorts c) in
  let blk (l : list nat) := repeat (c_blk c) (length l) in
  let p0 := repeat unwritten n in
  (* model runs *)
  let wf := map (fun z => binary_normalize 53 1024 z (c_wexp c) false) (c_ws c) in
  (* the exact model is run on the numerators: every operation of the model is
     homogeneous in the weights, so the common factor 2^c_wexp changes nothing
     at exact arithmetic (and 2^-1074 denominators would only slow it down) *)
  let wq := map inject_Z (c_ws c) in
  let sch_model := partition_scheme F64impl root k m in
  let scheme_ok :=
    match sch_model, c_scheme c with
    | Ok s, Some h => scheme_eqb (map_scheme f64_to_bits s) h
    | Panic _, None => true
    | _, _ => false
    end in
  let r_model :=
    match c_scheme c with
    | Some h => mj_with_scheme F64impl D n wf sorter blk N.of_nat (map_scheme f64_of_bits h) p0
    | None => multi_jagged F64impl D n wf sorter blk root N.of_nat k m p0
    end in
  let part_ok :=
    match r_model, c_impl c with
    | Ok p, IOk p' => same_up_to_renaming p p'
    | Panic _, IPanic => true
    | _, _ => false
    end in
  let r_exact := multi_jagged QAred D n wq sorter blk root N.of_nat k m p0 in
  let exact_agrees :=
    match r_model, r_exact with
    | Ok p, Ok p' => list_eqb N.eqb p p'
    | Panic _, Panic _ => true
    | _, _ => false
    end in
  (* the hierarchy is rebuilt from the implementation's own single-thread run
     (leaf numbers in preorder) and checked against the ids of the run under test *)
  let jag_ok :=
    match c_impl c, c_seq c, c_scheme c with
    | IOk p, IOk ps, Some h =>
      let pm := pm_of_list p in
      check_jagged N D cxlt (fun i => match pm_get pm i with Some x => x | None => unwritten end) h n
                   (leaves_of_ids ps n (leaves h))
    | IOk _, _, _ => false
    | _, _, _ => true
    end in
  (* contract: at least one part and one iteration, no negative weight *)
  let nonneg := forallb (fun w => (0 <=? w)%Z) (c_ws c) in
  let positive := forallb (fun w => (0 <? w)%Z) (c_ws c) in
  let in_contract := (1 <=? k) && Nat.leb 1 m && nonneg && Nat.leb 1 D && Nat.eqb (length (c_ws c)) n in
  let prop :=
    if in_contract then
      match c_impl c with
      | IOk p => check_range k n p &&
                 (if positive && Nat.leb 1 n then check_balance (c_ws c) p k m else true) &&
                 (* necessary condition of the jagged hierarchy, from ids and coordinates alone *)
                 match c_scheme c with
                 | Some h => let pm := pm_of_list p in
                             check_separated N D cxlt (fun i => match pm_get pm i with Some x => x | None => unwritten end)
                                             h n (N.to_nat k)
                 | None => true
                 end
      | _ => false                         (* panic or hang inside the contract *)
      end
    else true in
  let stream := if negb in_contract then 3 else if negb positive then 1 else if N.of_nat n <? k then 2 else 0 in
  let outcome := match c_impl c with IOk _ => 0 | IPanic => 1 | IHang => 2 | IErr _ _ _ => 3 end in
  {| corr_ok := scheme_ok && sorts_ok && part_ok && jag_ok && (negb in_contract || forallb root_entry_ok tbl);
     prop_ok := prop;
     cls := stream * 100 + outcome * 10 + (if exact_agrees then 0 else 1) |}.

(* Large structured inputs (n > 600): the model is not re-run (its list-based
   gather and sort validation are quadratic); the implementation's output is
   judged by the proved checkers alone — range, balance and the separation of
   the parts along the scheme's axes — the scheme is still rebuilt and compared,
   and the output must be the one-thread output up to renaming. *)
Definition eval_big (c : case11) : verdict :=
  let D := c_dim c in
  let n := length (c_pts c) in
  let k := c_k c in
  let m := c_iter c in
  let ptsm := pm_of_list (map (map f64_of_bits) (c_pts c)) in
  let cx (a i : nat) := match pm_get ptsm i with Some l => nth a l S754_nan | None => S754_nan end in
  let cxlt (a x y : nat) := flt (cx a x) (cx a y) in
  let tbl := match c_scheme c with Some s => roots_of s k m | None => [(k, m, c_root0 c)] end in
  let root := root_of_table tbl in
  let scheme_ok :=
    match partition_scheme F64impl root k m, c_scheme c with
    | Ok s, Some h => scheme_eqb (map_scheme f64_to_bits s) h
    | Panic _, None => true
    | _, _ => false
    end in
  let nonneg := forallb (fun w => (0 <=? w)%Z) (c_ws c) in
  let positive := forallb (fun w => (0 <? w)%Z) (c_ws c) in
  let in_contract := (1 <=? k) && Nat.leb 1 m && nonneg && Nat.leb 1 D && Nat.eqb (length (c_ws c)) n in
  let prop :=
    if in_contract then
      match c_impl c with
      | IOk p => check_range k n p &&
                 (if positive && Nat.leb 1 n then check_balance (c_ws c) p k m else true) &&
                 match c_scheme c with
                 | Some h => let pm := pm_of_list p in
                             check_separated N D cxlt (fun i => match pm_get pm i with Some x => x | None => unwritten end)
                                             h n (N.to_nat k)
                 | None => true
                 end
      | _ => false
      end
    else true in
  let same_as_solo :=
    match c_impl c, c_seq c with
    | IOk p, IOk ps => same_up_to_renaming p ps
    | IPanic, IPanic => true
    | _, _ => false
    end in
  let stream := if negb in_contract then 3 else if negb positive then 1 else if N.of_nat n <? k then 2 else 0 in
  let outcome := match c_impl c with IOk _ => 0 | IPanic => 1 | IHang => 2 | IErr _ _ _ => 3 end in
  {| corr_ok := scheme_ok && same_as_solo && (negb in_contract || forallb root_entry_ok tbl);
     prop_ok := prop;
     cls := stream * 100 + outcome * 10 + 2 |}.

Definition eval11 (c : case11) : verdict :=
  if Nat.ltb 600 (length (c_pts c)) then eval_big c else eval_small c.

Definition run11 (cs : list case11) := report (map eval11 cs).

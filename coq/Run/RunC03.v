(* Evaluation of the Rcb / Rib correspondence cases (C03, shared with C04):
   model vs implementation (exact ids) and the certified checkers on the
   implementation's ids.  Depends on the model and the generated constants only. *)
From Coupe Require Import Lib.Prelude Lib.SFloat Lib.Report Model.Rcb Gen.RcbGen.
From Coq Require Import Floats.SpecFloat.
Open Scope Z_scope.

(* an f64 coordinate crosses the boundary as its bit pattern, or -- when it is
   m * 2^e with a small odd m (grid values; cheaper to parse) -- as (m, e) *)
Inductive coordq := Cb (bits : N) | Cz (m e : Z).
Definition coord_of (q : coordq) : spec_float :=
  match q with
  | Cb b => f64_of_bits b
  | Cz m e => binary_normalize 53 1024 m e false
  end.

(* r_pts: D coordinates per point (for Rib: the rotated points the
   implementation handed to rcb, as recorded by the hook) *)
Record caseR := mkR { r_rib : bool; r_D : nat; r_k : nat; r_tol : N; r_pts : list (list coordq);
                      r_ws : list Z; r_plen : nat; r_impl : impl_res }.

Definition pts_of (c : caseR) : list (list spec_float) := map (map coord_of) (r_pts c).
Definition p0_of (c : caseR) : list N := repeat 18446744073709551615%N (r_plen c).

(* the cut search needs < 300 iterations on binary32 (termination:
   Properties/C03.v, C03_search_terminates) *)
Definition run_fuel : nat := 2000.

(* the variant of the cut search the current source implements (translator) *)
Definition rcb_variant : variant := mkvariant rcb_old_rules rcb_by_coord rcb_probe_max rcb_safe_mid rcb_clamp_cast.

Definition model_of (c : caseR) : res (list N) :=
  rcb rcb_variant run_fuel seq_sched (r_D c) (r_k c) (f64_of_bits (r_tol c)) (pts_of c) (r_ws c) (p0_of c).

Definition wellformed (c : caseR) : bool :=
  Nat.eqb (length (r_pts c)) (r_plen c) && Nat.eqb (length (r_ws c)) (r_plen c).

(* malformed stream (C20 clause): the mismatch is reported, nothing else *)
Definition malformed_ok (c : caseR) : bool :=
  match r_impl c with
  | IErr 1 a b =>
    (a =? N.of_nat (r_plen c))%N
    && (if negb (Nat.eqb (length (r_ws c)) (r_plen c)) then (b =? N.of_nat (length (r_ws c)))%N
        else (b =? N.of_nat (length (r_pts c)))%N)
  | _ => false
  end.

Definition cls_of (c : caseR) : N :=
  match r_impl c with IOk _ => 0 | IErr _ _ _ => 1 | IPanic => 2 | IHang => 3 end%N.

(* items from already converted coordinates (= mk_items on the f64 points) *)
Fixpoint items32 (i : N) (p32 : list (list spec_float)) (ws : list Z) : list item32 :=
  match p32, ws with
  | p :: pt, w :: wt' => mkitem i p w :: items32 (N.succ i) pt wt'
  | _, _ => []
  end.

(* One evaluation per case; the f64 values and their binary32 images are
   computed once.
   Usage contract [wide]: matching lengths, D coordinates per point, finite f64
   coordinates, non-negative weights, iter_count <= 62.
   The property is judged on the single-precision coordinates CLAMPED to
   [f32::MIN, f32::MAX] ([cast32 true]: what the current source computes; a
   finite f64 beyond the binary32 range counts as +-f32::MAX, points sharing
   that image form one group), whatever cast the modelled source uses: code
   that lets such coordinates become infinities keeps them all on one side
   and is rejected by the balance clause.
   The decidable premise of the theorems (box_ok32c: the root box has finite
   canonical bounds that enclose the binary32 coordinates) is evaluated as a
   cross-check on the model's own images when they are finite.
   [balance]: also judge every bisection (C04). *)
Definition eval_rcb (balance : bool) (c : caseR) : verdict :=
  let D := r_D c in let k := r_k c in let ws := r_ws c in
  let p64 := pts_of c in
  let p32 := map (map (cast32 true)) p64 in
  let p32m := if rcb_clamp_cast then p32 else map (map f64_to_f32) p64 in
  let tol := f64_of_bits (r_tol c) in
  let model := rcb rcb_variant run_fuel seq_sched D k tol p64 ws (p0_of c) in
  let wf := wellformed c in
  let wide := wf && forallb (fun p => Nat.eqb (length p) D && forallb is_finite p) p64
              && forallb (fun w => 0 <=? w) ws && Nat.leb k 62 in
  let premise :=
    if wide && negb (Nat.eqb (r_plen c) 0) && forallb (fun p => forallb is_finite p) p32m then
      match bbox32 rcb_clamp_cast D 0 p64 with
      | Some bb => box_ok_from 0 bb (items32 0 p32m ws)
      | None => false
      end
    else true in
  let corr := res_matches model (r_impl c) && premise in
  let prop :=
    if wide then
      match r_impl c with
      | IOk p =>
        if balance then check_balance spec_float flt (tol_test tol) f32_valid D k p32 ws p
        else check_bisect spec_float flt f32_valid D k p32 p
      | _ => false                       (* error, panic or hang inside the contract *)
      end
    else if wf then true
    else malformed_ok c in
  {| corr_ok := corr; prop_ok := prop; cls := cls_of c |}.

Definition eval03 := eval_rcb false.
Definition run03 (cs : list caseR) := report (map eval03 cs).

(* Evaluation of the Rcb / Rib correspondence cases (C03): model vs
   implementation (exact ids) and the certified checker [check_bisect] on the
   implementation's ids.  Depends on the model only. *)
From Coupe Require Import Lib.Prelude Lib.SFloat Lib.Report Model.Rcb Gen.RcbGen.
From Coq Require Import Floats.SpecFloat.
Open Scope Z_scope.

(* r_pts: f64 bit patterns, D per point (for Rib: the rotated points the
   implementation handed to rcb, as recorded by the hook) *)
Record caseR := mkR { r_rib : bool; r_D : nat; r_k : nat; r_tol : N; r_pts : list (list N);
                      r_ws : list Z; r_plen : nat; r_impl : impl_res }.

Definition pts_of (c : caseR) : list (list spec_float) := map (map (fun b => f64_of_bits b)) (r_pts c).
Definition p0_of (c : caseR) : list N := repeat 18446744073709551615%N (r_plen c).

(* the cut search makes at most ~300 iterations on binary32 (Proofs/RcbProofs.v: search_fuel) *)
Definition run_fuel : nat := 2000.

(* the variant of the cut search the current source implements (translator) *)
Definition rcb_variant : variant := mkvariant rcb_old_rules rcb_by_coord rcb_probe_max rcb_safe_mid.

Definition model_of (c : caseR) : res (list N) :=
  rcb rcb_variant run_fuel seq_sched (r_D c) (r_k c) (f64_of_bits (r_tol c)) (pts_of c) (r_ws c) (p0_of c).

(* usage contract: matching lengths, D coordinates per point, finite
   coordinates whose binary32 image is finite too, non-negative weights,
   iter_count <= 62 *)
Definition wellformed (c : caseR) : bool :=
  Nat.eqb (length (r_pts c)) (r_plen c) && Nat.eqb (length (r_ws c)) (r_plen c).
Definition in_contract (c : caseR) : bool :=
  wellformed c
  && forallb (fun p => Nat.eqb (length p) (r_D c)
                       && forallb (fun x => is_finite x && is_finite (f64_to_f32 x)) p) (pts_of c)
  && forallb (fun w => 0 <=? w) (r_ws c) && Nat.leb (r_k c) 62.

(* malformed stream (C20 clause): the mismatch is reported, nothing else *)
Definition malformed_ok (c : caseR) : bool :=
  match r_impl c with
  | IErr 1 a b =>
    (a =? N.of_nat (r_plen c))%N
    && (if negb (Nat.eqb (length (r_ws c)) (r_plen c)) then (b =? N.of_nat (length (r_ws c)))%N
        else (b =? N.of_nat (length (r_pts c)))%N)
  | _ => false
  end.

Definition cls_of (c : caseR) : N :=
  match r_impl c with IOk _ => 0 | IErr _ _ _ => 1 | IPanic => 2 | IHang => 3 end%N.

(* the decidable premise of C03_rcb_total / C04_rcb_split_balanced: inside the
   contract the root box (f64 min/max, then `as f32`) has finite canonical
   bounds that enclose the binary32 coordinates *)
Definition premise_ok (c : caseR) : bool :=
  if in_contract c && negb (Nat.eqb (r_plen c) 0) then box_ok32 (r_D c) (pts_of c) (r_ws c) else true.

Definition eval03 (c : caseR) : verdict :=
  let corr := res_matches (model_of c) (r_impl c) && premise_ok c in
  let prop :=
    if in_contract c then
      match r_impl c with
      | IOk p => check_bisect32 (r_D c) (r_k c) (pts_of c) p
      | _ => false
      end
    else if wellformed c then true
    else malformed_ok c in
  {| corr_ok := corr; prop_ok := prop; cls := cls_of c |}.

Definition run03 (cs : list caseR) := report (map eval03 cs).
